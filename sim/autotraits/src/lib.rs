//! Compile-time half of C19: Regex, Match and Error must be Send + Sync.
//! A trait-bound error (E0277) here is the violation.
fn ok<T: Send + Sync>() {}

pub fn probe() {
    ok::<regress::Regex>();
    ok::<regress::Match>();
    ok::<regress::Error>();
}

/// A shared Regex must be usable from another thread through a plain reference
/// and through a clone.
pub fn share(re: &'static regress::Regex) -> bool {
    let c = re.clone();
    let h1 = std::thread::spawn(move || re.find("a").is_some());
    let h2 = std::thread::spawn(move || c.find("a").is_some());
    h1.join().unwrap() == h2.join().unwrap()
}
