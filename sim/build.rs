// The simulator owns the process' randomness seam: std asks the C library's `getrandom`
// through a weak symbol looked up at run time ("allows interposition, e.g. for perf
// measurements that want to disable randomness for consistency" - std's own comment). The
// definition in src/rng.rs has to be visible to that lookup, i.e. exported from the
// executable's dynamic symbol table.
fn main() {
    println!("cargo:rustc-link-arg-bins=-Wl,--export-dynamic-symbol=getrandom");
    println!("cargo:rerun-if-changed=build.rs");
}
