//! Miri tier of C19. Miri is used as a second deterministic simulator: its own
//! seeded preemptive scheduler decides the interleaving (one -Zmiri-seed = one
//! interleaving) and it reports data races on shared state even when the values
//! happen to agree. The scenario shares compiled Regex objects (and clones made
//! while another thread is searching) between three threads and compares every
//! result with the sequential pass.
use regress::Regex;
use std::sync::Arc;

fn fmt(m: Option<regress::Match>) -> String {
    match m {
        None => "None".into(),
        Some(m) => format!("{:?};{:?}", m.range(), m.captures),
    }
}

fn queries() -> Vec<(usize, &'static str, usize)> {
    // (regex index, haystack, start)
    vec![
        (0, "aab bbb abb", 0),
        (0, "aabbb", 0),
        (1, "xay xby", 0),
        (1, "ab", 1),
        (2, "xyxy", 1),
        (2, "yxy", 0),
        (3, "Ab aB AB", 0),
        (3, "zz", 0),
        (0, "abab", 2),
        (1, "b", 0),
    ]
}

fn run_query(res: &[Arc<Regex>], q: &(usize, &'static str, usize)) -> String {
    let re = &res[q.0];
    let all: Vec<String> = re.find_from(q.1, q.2).map(|m| fmt(Some(m))).collect();
    all.join("|")
}

fn main() {
    let specs: [(&str, &str); 4] = [("(a|b){2}\\1", ""), ("(?:(a)|(b))+", ""), ("(?<=x)y", ""), ("ab", "i")];
    let res: Vec<Arc<Regex>> = specs.iter().map(|(p, f)| Arc::new(Regex::with_flags(p, *f).unwrap())).collect();
    let qs = queries();
    // sequential reference on freshly compiled private objects
    let fresh: Vec<Arc<Regex>> = specs.iter().map(|(p, f)| Arc::new(Regex::with_flags(p, *f).unwrap())).collect();
    let expected: Vec<String> = qs.iter().map(|q| run_query(&fresh, q)).collect();

    let nthreads = 3;
    let mut handles = Vec::new();
    for t in 0..nthreads {
        let res = res.clone();
        let qs = qs.clone();
        handles.push(std::thread::spawn(move || {
            let mut out = Vec::new();
            // thread t runs the queries rotated by t; thread 2 uses clones made while the others search
            let local: Vec<Arc<Regex>> = if t == 2 { res.iter().map(|r| Arc::new((**r).clone())).collect() } else { res.clone() };
            for k in 0..qs.len() {
                let i = (k + t * 3) % qs.len();
                out.push((i, run_query(&local, &qs[i])));
                if t == 1 && k == 4 {
                    // re-entrancy through a user closure on the shared object
                    let s = res[1].replace_all_with("xay xby", |m| format!("<{}>", res[1].find_from("ab", m.start().min(2)).count()));
                    out.push((usize::MAX, s));
                }
            }
            out
        }));
    }
    let mut bad = 0;
    for h in handles {
        for (i, got) in h.join().unwrap() {
            if i == usize::MAX {
                let want = fresh[1].replace_all_with("xay xby", |m| format!("<{}>", fresh[1].find_from("ab", m.start().min(2)).count()));
                if got != want {
                    println!("C19-MIRI-MISMATCH nested: got {} want {}", got, want);
                    bad += 1;
                }
            } else if got != expected[i] {
                println!("C19-MIRI-MISMATCH query {}: got {} want {}", i, got, expected[i]);
                bad += 1;
            }
        }
    }
    // after the concurrent phase the shared objects must still answer like fresh ones
    for (i, q) in qs.iter().enumerate() {
        let got = run_query(&res, q);
        if got != expected[i] {
            println!("C19-MIRI-MISMATCH after: query {}: got {} want {}", i, got, expected[i]);
            bad += 1;
        }
    }
    if bad > 0 {
        std::process::exit(1);
    }
    println!("miri-c19 ok");
}
