//! Miri tier of C19. Miri is used as a second deterministic simulator: its own
//! seeded preemptive scheduler decides the interleaving at basic-block
//! granularity (one -Zmiri-seed = one interleaving), which reaches code *between*
//! the step-hook sites that the baton scheduler cannot split, and it reports data
//! races on shared state even when the values happen to agree.
//!
//! argv[1] = world seed. 0 (default) is a fixed scenario; any other value
//! generates a small world (2-3 regexes biased to char classes, case-insensitive
//! matching, back-references and prefilters; non-ASCII haystacks; 3 threads, one of
//! them on clones made while the others search). Every result is compared with a
//! sequential pass on freshly compiled private objects.
use regress::Regex;
use std::sync::Arc;

fn fmt(m: regress::Match) -> String {
    format!("{:?};{:?}", m.range(), m.captures)
}

fn splitmix(x: &mut u64) -> u64 {
    *x = x.wrapping_add(0x9E37_79B9_7F4A_7C15);
    let mut z = *x;
    z = (z ^ (z >> 30)).wrapping_mul(0xBF58_476D_1CE4_E5B9);
    z = (z ^ (z >> 27)).wrapping_mul(0x94D0_49BB_1331_11EB);
    z ^ (z >> 31)
}

const CORPUS: &[(&str, &str)] = &[
    ("[a-cé-ü]+", ""),
    ("[^a-c]+", ""),
    ("[k-mß]+", "i"),
    ("[\\u{100}-\\u{17f}]+", "u"),
    ("\\w+", "iu"),
    ("(\\w)\\1", "i"),
    ("(\\w)\\1", "iu"),
    ("(a|b){2}\\1", ""),
    ("(?:(a)|(b))+", ""),
    ("(?<=x)y", ""),
    ("ab", "i"),
    ("aab", ""),
    ("[ab]c", ""),
    ("[éa]+b", ""),
    ("\\bk+\\b", "iu"),
    ("(?=[a-c])\\w", ""),
    ("[^\\s]+", ""),
    ("a*", ""),
    ("\\p{L}+", "u"),
    ("\\p{Lu}\\p{Ll}*", "u"),
];
const HAYS: &[&str] = &["白的😀的用🔥", "理👍生🔥", "aab bbb abb", "xay xby", "éaüb kKß", "aA bB kK", "xyxy", "Ab aB AB", "ābĉ aab", "ß", "", "abcabc é"];

type Query = (usize, usize, usize); // (regex index, haystack index, start)

fn run_query(res: &[Arc<Regex>], hays: &[String], q: &Query) -> String {
    let re = &res[q.0];
    let h = &hays[q.1];
    let start = if h.is_char_boundary(q.2.min(h.len())) { q.2.min(h.len()) } else { 0 };
    let all: Vec<String> = re.find_from(h, start).map(fmt).collect();
    all.join("|")
}

fn main() {
    let seed: u64 = std::env::args().nth(1).and_then(|s| s.parse().ok()).unwrap_or(0);
    let (specs, hays, qs): (Vec<(String, String)>, Vec<String>, Vec<Query>) = if seed == 0 {
        let specs = vec![("(a|b){2}\\1", ""), ("(?:(a)|(b))+", ""), ("(?<=x)y", ""), ("ab", "i")];
        let hays = vec!["aab bbb abb", "aabbb", "xay xby", "ab", "xyxy", "yxy", "Ab aB AB", "zz", "abab", "b"];
        let qs = vec![(0, 0, 0), (0, 1, 0), (1, 2, 0), (1, 3, 1), (2, 4, 1), (2, 5, 0), (3, 6, 0), (3, 7, 0), (0, 8, 2), (1, 9, 0)];
        (specs.into_iter().map(|(a, b)| (a.to_string(), b.to_string())).collect(), hays.into_iter().map(|s| s.to_string()).collect(), qs)
    } else if seed % 1000 == 994 {
        // fixed "colliding code points" scenario: case-insensitive back-references and classes
        // over haystacks whose characters are congruent modulo 64, 128 and 256 (a / \u{e1} /
        // \u{161} / \u{461} and their capitals; i / \u{e9}): three threads hammer the same slots
        // of any small direct-mapped table keyed by code point (memo of case folding, of class
        // membership) with different keys at the same time
        let specs = vec![("(.)\\1", "i"), ("(\\w)\\1", "iu"), ("[a\u{e1}\u{161}]+", "i")];
        let hays = vec!["aAaAaAaA", "\u{e1}\u{c1}\u{e1}\u{c1}\u{e1}\u{c1}", "\u{161}\u{160}\u{161}\u{160}", "\u{461}\u{460}\u{461}\u{460}", "iIiI\u{e9}\u{c9}\u{e9}\u{c9}", "a\u{c1}\u{161}A"];
        let qs = vec![(0, 0, 0), (0, 1, 0), (0, 2, 0), (1, 3, 0), (1, 4, 0), (2, 5, 0), (0, 4, 0), (1, 0, 0), (1, 1, 0)];
        (specs.into_iter().map(|(a, b)| (a.to_string(), b.to_string())).collect(), hays.into_iter().map(|s| s.to_string()).collect(), qs)
    } else if seed % 1000 == 996 {
        // fixed "first use" scenario: two threads run their FIRST search on the same freshly
        // compiled object at the same time (lazily built prefilters or tables, racy
        // "initialised" flags). A class with 40 separate intervals (big enough for any
        // "large class" threshold, cheap to compile), a literal-prefixed alternation, a digit run.
        let mut class = String::from("[");
        for k in 0..40u32 {
            class.push(char::from_u32(0x100 + 2 * k).unwrap());
        }
        class.push_str("]+");
        let specs = vec![(class, String::new()), ("(?:abc|abd)x".to_string(), String::new()), ("\\d+z".to_string(), String::new())];
        let hays = vec!["12 \u{100}\u{102} 3", "zzabdx", "x 77z", "\u{14e}\u{101}\u{100}"];
        let qs = vec![(0, 0, 0), (1, 1, 0), (2, 2, 0), (0, 0, 0), (1, 1, 0), (2, 2, 0), (0, 3, 0), (1, 1, 0), (2, 2, 0)];
        (specs, hays.into_iter().map(|s| s.to_string()).collect(), qs)
    } else if seed % 1000 == 997 {
        // fixed "class with gaps" scenario: multi-interval classes probed by one thread with
        // members that alternate between intervals and by the others with code points that lie
        // in the gaps (a torn multi-word memo shows as a gap character accepted)
        let specs = vec![("[a-zа-я]", ""), ("[a-cé-ü]+", ""), ("[^a-cé-ü]", "")];
        let hays = vec!["яzжaяzжa", "ЖУК ЖУК", "éaüb", "kKdD", "zяaж"];
        let qs = vec![(0, 0, 0), (0, 1, 0), (0, 4, 0), (0, 1, 0), (1, 2, 0), (1, 3, 0), (2, 2, 0), (2, 3, 0), (0, 0, 0), (0, 1, 0)];
        (specs.into_iter().map(|(a, b)| (a.to_string(), b.to_string())).collect(), hays.into_iter().map(|s| s.to_string()).collect(), qs)
    } else if seed % 1000 == 998 {
        // fixed many-threads scenario (10 threads on one object): fixed-size tables of
        // per-thread slots overflow only when more searches are in flight than slots
        let specs = vec![("[à-ÿ]+", ""), ("[^a-zà-ÿ\\s]+", "")];
        let hays = vec!["àé ÿx éé", "xàyéz", "ÀÉ àé", "éàÿ", "x y z", "ÿ"];
        let qs = vec![(0, 0, 0), (0, 1, 0), (0, 2, 0), (0, 3, 0), (1, 0, 0), (1, 1, 0), (1, 2, 0), (0, 4, 0), (0, 5, 0), (1, 4, 0)];
        (specs.into_iter().map(|(a, b)| (a.to_string(), b.to_string())).collect(), hays.into_iter().map(|s| s.to_string()).collect(), qs)
    } else if seed % 1000 == 999 {
        // fixed large-Unicode-class scenario: a class with hundreds of intervals, haystacks whose
        // characters come from code-point pages that collide in small direct-mapped tables
        // (U+7684 / U+1F600, U+751F / U+1F525, U+7406 / U+1F44D are congruent mod 128 pages)
        let specs = vec![("\\p{L}+", "u"), ("[^\\p{L}\\s]+", "u")];
        let hays = vec!["白的😀的用🔥", "理👍生🔥的", "的😀", "用🔥理，美！", "😀的😀的"];
        let qs = vec![(0, 0, 0), (0, 1, 0), (0, 2, 0), (0, 3, 0), (0, 4, 0), (1, 0, 0), (1, 1, 0), (1, 3, 0), (0, 0, 3), (0, 4, 4)];
        (specs.into_iter().map(|(a, b)| (a.to_string(), b.to_string())).collect(), hays.into_iter().map(|s| s.to_string()).collect(), qs)
    } else {
        let mut x = seed;
        let nre = 2 + (splitmix(&mut x) % 2) as usize;
        let specs: Vec<(String, String)> = (0..nre)
            .map(|_| {
                let (p, f) = CORPUS[(splitmix(&mut x) % CORPUS.len() as u64) as usize];
                (p.to_string(), f.to_string())
            })
            .collect();
        let nh = 3 + (splitmix(&mut x) % 3) as usize;
        let hays: Vec<String> = (0..nh).map(|_| HAYS[(splitmix(&mut x) % HAYS.len() as u64) as usize].to_string()).collect();
        let nq = 6 + (splitmix(&mut x) % 4) as usize;
        let qs: Vec<Query> = (0..nq).map(|_| ((splitmix(&mut x) % nre as u64) as usize, (splitmix(&mut x) % nh as u64) as usize, (splitmix(&mut x) % 3) as usize)).collect();
        (specs, hays, qs)
    };
    let compile = |specs: &[(String, String)]| -> Vec<Arc<Regex>> { specs.iter().map(|(p, f)| Arc::new(Regex::with_flags(p, f.as_str()).unwrap())).collect() };
    let res = compile(&specs);
    let hays = Arc::new(hays);
    // sequential reference on freshly compiled private objects
    let fresh = compile(&specs);
    let expected: Vec<String> = qs.iter().map(|q| run_query(&fresh, &hays, q)).collect();
    let nested = |r: &[Arc<Regex>], hays: &[String]| -> String {
        let re = &r[r.len() - 1];
        let h = &hays[0];
        re.replace_all_with(h, |m| format!("<{}>", re.find_from(h, m.start()).count()))
    };
    let nested_expected = nested(&fresh, &hays);

    let nthreads = if seed % 1000 == 998 { 10 } else { 3 };
    let mut handles = Vec::new();
    for t in 0..nthreads {
        let res = res.clone();
        let qs = qs.clone();
        let hays = hays.clone();
        handles.push(std::thread::spawn(move || {
            let mut out = Vec::new();
            // thread t runs the queries rotated by t; thread 2 uses clones made while the others search
            let local: Vec<Arc<Regex>> = if t == 2 { res.iter().map(|r| Arc::new((**r).clone())).collect() } else { res.clone() };
            for k in 0..qs.len() {
                let i = (k + t * 3) % qs.len();
                out.push((i, run_query(&local, &hays, &qs[i])));
                if t == 1 && k == qs.len() / 2 {
                    // re-entrancy through a user closure on the shared object
                    let re = &res[res.len() - 1];
                    let h = &hays[0];
                    out.push((usize::MAX, re.replace_all_with(h, |m| format!("<{}>", re.find_from(h, m.start()).count()))));
                }
            }
            out
        }));
    }
    let mut bad = 0;
    for h in handles {
        for (i, got) in h.join().unwrap() {
            if i == usize::MAX {
                if got != nested_expected {
                    println!("C19-MIRI-MISMATCH world {} nested: got {} want {}", seed, got, nested_expected);
                    bad += 1;
                }
            } else if got != expected[i] {
                println!("C19-MIRI-MISMATCH world {} query {:?} /{}/{}: got {} want {}", seed, qs[i], specs[qs[i].0].0, specs[qs[i].0].1, got, expected[i]);
                bad += 1;
            }
        }
    }
    // after the concurrent phase the shared objects must still answer like fresh ones
    for (i, q) in qs.iter().enumerate() {
        let got = run_query(&res, &hays, q);
        if got != expected[i] {
            println!("C19-MIRI-MISMATCH world {} after: query {:?}: got {} want {}", seed, q, got, expected[i]);
            bad += 1;
        }
    }
    if bad > 0 {
        std::process::exit(1);
    }
    println!("miri-c19 world {} ok", seed);
}
