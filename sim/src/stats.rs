//! Counters accumulated per worker and merged by the driver. Everything that ends
//! up in an evidence file is counted here, during the run.

use crate::json::J;
use std::collections::BTreeMap;

#[derive(Default, Clone, Debug)]
pub struct Stats {
    pub c: BTreeMap<String, u64>,
    pub samples: Vec<J>,
    pub notes: Vec<String>,
}

impl Stats {
    pub fn add(&mut self, k: &str, v: u64) {
        if v != 0 || !self.c.contains_key(k) {
            *self.c.entry(k.to_string()).or_insert(0) += v;
        }
    }
    pub fn max(&mut self, k: &str, v: u64) {
        let e = self.c.entry(k.to_string()).or_insert(0);
        if v > *e {
            *e = v;
        }
    }
    pub fn get(&self, k: &str) -> u64 {
        self.c.get(k).copied().unwrap_or(0)
    }
    pub fn merge(&mut self, o: &Stats) {
        for (k, v) in &o.c {
            if k.starts_with("max.") {
                self.max(k, *v);
            } else {
                *self.c.entry(k.clone()).or_insert(0) += *v;
            }
        }
        for s in &o.samples {
            if self.samples.len() < 4 {
                self.samples.push(s.clone());
            }
        }
        self.notes.extend(o.notes.iter().cloned());
    }
    pub fn to_json(&self) -> J {
        J::obj()
            .set("counters", J::Obj(self.c.iter().map(|(k, v)| (k.clone(), J::u(*v))).collect()))
            .set("samples", J::Arr(self.samples.clone()))
            .set("notes", J::Arr(self.notes.iter().map(|n| J::s(n)).collect()))
    }
    pub fn from_json(j: &J) -> Stats {
        let mut s = Stats::default();
        if let Some(o) = j.get("counters").and_then(|v| v.as_obj()) {
            for (k, v) in o {
                s.c.insert(k.clone(), v.as_u64().unwrap_or(0));
            }
        }
        if let Some(a) = j.get("samples").and_then(|v| v.as_arr()) {
            s.samples = a.clone();
        }
        if let Some(a) = j.get("notes").and_then(|v| v.as_arr()) {
            s.notes = a.iter().filter_map(|n| n.as_str().map(|x| x.to_string())).collect();
        }
        s
    }

    /// Group counters with a common prefix "p." into an object {suffix: value}.
    pub fn group(&self, prefix: &str) -> J {
        let p = format!("{}.", prefix);
        J::Obj(self.c.iter().filter(|(k, _)| k.starts_with(&p)).map(|(k, v)| (k[p.len()..].to_string(), J::u(*v))).collect())
    }
}
