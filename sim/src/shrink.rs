//! Minimiser: shrink world + explicit schedule while the same (property, clause)
//! violation persists. Every candidate is a well-defined execution because the
//! explicit scheduler falls back to "lowest-id runnable thread runs to completion"
//! when the schedule runs out or no longer fits.

use crate::run::execute;
use crate::sched::Segment;
use crate::world::*;

pub struct Target {
    pub property: String,
    pub clause: String,
}

pub struct Shrinker {
    pub target: Target,
    pub evals: u32,
    pub max_evals: u32,
}

fn clause_class(c: &str) -> &str {
    c
}

impl Shrinker {
    pub fn fails(&mut self, w: &World, s: &[Segment]) -> bool {
        if self.evals >= self.max_evals {
            return false;
        }
        self.evals += 1;
        if w.threads.is_empty() || w.regexes.is_empty() || w.hays.is_empty() {
            return false;
        }
        let e = execute(w, Some(s));
        e.viols.iter().any(|v| v.property == self.target.property && clause_class(&v.clause) == clause_class(&self.target.clause))
    }

    /// Like `fails`, but when the explicit schedule no longer produces the violation on the
    /// edited world (dropping ops shifts every later decision point), re-search a handful of
    /// seeded schedules for the candidate and adopt the recorded trace of one that does.
    fn fails_resched(&mut self, w: &World, s: &[Segment]) -> Option<Vec<Segment>> {
        if self.fails(w, s) {
            return Some(s.to_vec());
        }
        if w.threads.len() < 2 || s.is_empty() {
            return None;
        }
        let strategies = [
            crate::sched::Strategy::Random { num: 1, den: 8 },
            crate::sched::Strategy::Random { num: 1, den: 2 },
            crate::sched::Strategy::Pct { depth: 2 },
            crate::sched::Strategy::Random { num: 1, den: 32 },
        ];
        for k in 0..8u64 {
            if self.evals >= self.max_evals {
                return None;
            }
            self.evals += 1;
            let mut c = w.clone();
            c.knobs.strategy = strategies[(k % 4) as usize].clone();
            c.knobs.sched_seed = 0x5eed_0000 + k;
            let e = execute(&c, None);
            if e.viols.iter().any(|v| v.property == self.target.property && clause_class(&v.clause) == clause_class(&self.target.clause)) {
                let tr = e.p2.trace.clone();
                // the recorded trace must reproduce it as an explicit schedule
                if self.fails(w, &tr) {
                    return Some(tr);
                }
            }
        }
        None
    }

    pub fn shrink(&mut self, mut w: World, mut s: Vec<Segment>) -> (World, Vec<Segment>) {
        loop {
            let before = (w.clone(), s.clone());
            self.drop_threads(&mut w, &mut s);
            self.drop_ops(&mut w, &mut s);
            self.drop_cancels(&mut w, &mut s);
            self.simplify_schedule(&mut w, &mut s);
            self.drop_unused(&mut w, &mut s);
            self.simplify_ops(&mut w, &mut s);
            self.shorten_hays(&mut w, &mut s);
            self.shorten_patterns(&mut w, &mut s);
            if (w.clone(), s.clone()) == before || self.evals >= self.max_evals {
                break;
            }
        }
        (w, s)
    }

    fn drop_threads(&mut self, w: &mut World, s: &mut Vec<Segment>) {
        let mut t = 0;
        while t < w.threads.len() && w.threads.len() > 1 {
            let mut c = w.clone();
            c.threads.remove(t);
            for h in c.hays.iter_mut() {
                h.owner = match h.owner {
                    Some(o) if o as usize == t => None,
                    Some(o) if o as usize > t => Some(o - 1),
                    x => x,
                };
            }
            // a formerly private haystack may have rewrites in the dropped thread only: fine
            let cs: Vec<Segment> = s
                .iter()
                .filter(|(tt, _)| *tt as usize != t)
                .map(|(tt, n)| (if *tt as usize > t { tt - 1 } else { *tt }, *n))
                .collect();
            if self.fails(&c, &cs) {
                *w = c;
                *s = cs;
            } else {
                t += 1;
            }
        }
    }

    fn drop_ops(&mut self, w: &mut World, s: &mut Vec<Segment>) {
        for t in 0..w.threads.len() {
            let mut chunk = (w.threads[t].len() / 2).max(1);
            loop {
                let mut i = 0;
                while i < w.threads[t].len() {
                    let mut c = w.clone();
                    let end = (i + chunk).min(c.threads[t].len());
                    c.threads[t].drain(i..end);
                    if let Some(ns) = self.fails_resched(&c, s) {
                        *w = c;
                        *s = ns;
                    } else {
                        i += chunk;
                    }
                }
                if chunk == 1 {
                    break;
                }
                chunk = (chunk / 2).max(1);
            }
        }
    }

    fn drop_cancels(&mut self, w: &mut World, s: &mut Vec<Segment>) {
        for t in 0..w.threads.len() {
            for i in 0..w.threads[t].len() {
                if w.threads[t][i].cancel_at != 0 {
                    let mut c = w.clone();
                    c.threads[t][i].cancel_at = 0;
                    if self.fails(&c, s) {
                        *w = c;
                    }
                }
            }
        }
    }

    fn simplify_schedule(&mut self, w: &mut World, s: &mut Vec<Segment>) {
        // serial first
        if !s.is_empty() {
            let empty: Vec<Segment> = Vec::new();
            if self.fails(w, &empty) {
                s.clear();
                return;
            }
        }
        // truncate the tail
        let mut n = s.len();
        while n > 0 {
            let c: Vec<Segment> = s[..n - 1].to_vec();
            if self.fails(w, &c) {
                *s = c;
                n -= 1;
            } else {
                break;
            }
        }
        // remove single segments (neighbours of the same thread are merged)
        let mut k = 0;
        while k < s.len() {
            let mut c = s.clone();
            c.remove(k);
            let mut m: Vec<Segment> = Vec::new();
            for seg in c {
                match m.last_mut() {
                    Some(last) if last.0 == seg.0 => last.1 += seg.1,
                    _ => m.push(seg),
                }
            }
            if self.fails(w, &m) {
                *s = m;
            } else {
                k += 1;
            }
        }
        // shorten segment lengths towards small numbers
        for k in 0..s.len() {
            for cand in [1u64, 2, 4, 8, 16] {
                if cand < s[k].1 {
                    let mut c = s.clone();
                    c[k].1 = cand;
                    if self.fails(w, &c) {
                        *s = c;
                        break;
                    }
                }
            }
        }
    }

    fn remap_ops(w: &mut World, f: &dyn Fn(&mut OpKind)) {
        for t in w.threads.iter_mut() {
            for op in t.iter_mut() {
                f(&mut op.kind);
            }
        }
    }

    fn drop_unused(&mut self, w: &mut World, s: &mut Vec<Segment>) {
        // regexes
        let mut r = 0;
        while r < w.regexes.len() && w.regexes.len() > 1 {
            let mut c = w.clone();
            c.regexes.remove(r);
            let n = c.regexes.len() as u32;
            let rr = r as u32;
            let fix = move |i: &mut u32| {
                if *i > rr {
                    *i -= 1;
                } else if *i == rr {
                    *i = 0;
                }
                if *i >= n {
                    *i = 0;
                }
            };
            Self::remap_ops(&mut c, &|k: &mut OpKind| match k {
                OpKind::Open { re: ReRef::Shared(i), .. }
                | OpKind::Find { re: ReRef::Shared(i), .. }
                | OpKind::Replace { re: ReRef::Shared(i), .. }
                | OpKind::Burst { re: ReRef::Shared(i), .. }
                | OpKind::ReplacePanic { re: ReRef::Shared(i), .. }
                | OpKind::CloneRegex { re: i, .. }
                | OpKind::Compile { re: i, .. } => fix(i),
                OpKind::ReplaceNested { re, inner, .. } => {
                    if let ReRef::Shared(i) = re {
                        fix(i);
                    }
                    if let ReRef::Shared(i) = inner {
                        fix(i);
                    }
                }
                _ => {}
            });
            if self.fails(&c, s) {
                *w = c;
            } else {
                r += 1;
            }
        }
        // haystacks
        let mut h = 0;
        while h < w.hays.len() && w.hays.len() > 1 {
            let mut c = w.clone();
            c.hays.remove(h);
            let hh = h as u32;
            let n = c.hays.len() as u32;
            let fix = move |i: &mut u32| {
                if *i > hh {
                    *i -= 1;
                } else if *i == hh {
                    *i = 0;
                }
                if *i >= n {
                    *i = 0;
                }
            };
            Self::remap_ops(&mut c, &|k: &mut OpKind| match k {
                OpKind::Open { hay, .. }
                | OpKind::Find { hay, .. }
                | OpKind::Replace { hay, .. }
                | OpKind::ReplaceNested { hay, .. }
                | OpKind::Rewrite { hay, .. }
                | OpKind::Burst { hay, .. }
                | OpKind::ReplacePanic { hay, .. }
                | OpKind::Compile { hay, .. } => fix(hay),
                _ => {}
            });
            if self.fails(&c, s) {
                *w = c;
            } else {
                h += 1;
            }
        }
    }

    fn simplify_ops(&mut self, w: &mut World, s: &mut Vec<Segment>) {
        for t in 0..w.threads.len() {
            for i in 0..w.threads[t].len() {
                let cands: Vec<OpKind> = match &w.threads[t][i].kind {
                    OpKind::Open { h, re, hay, start } if *start != Start::Zero => vec![OpKind::Open { h: *h, re: *re, hay: *hay, start: Start::Zero }],
                    OpKind::Drain { h } => vec![OpKind::Next { h: *h }],
                    OpKind::Adaptor { h, kind, k } if *kind == 2 && *k > 0 => vec![OpKind::Adaptor { h: *h, kind: 2, k: *k - 1 }],
                    OpKind::Resume { h } => vec![OpKind::Next { h: *h }],
                    OpKind::ReplaceNested { re, hay, .. } => vec![OpKind::Find { re: *re, hay: *hay }],
                    OpKind::Replace { re, hay, .. } => vec![OpKind::Find { re: *re, hay: *hay }],
                    OpKind::Compile { re, hay } => vec![OpKind::Find { re: ReRef::Shared(*re), hay: *hay }],
                    OpKind::Burst { re, hay, n } if *n > 2 => vec![OpKind::Find { re: *re, hay: *hay }, OpKind::Burst { re: *re, hay: *hay, n: *n / 2 }, OpKind::Burst { re: *re, hay: *hay, n: *n - 1 }],
                    _ => vec![],
                };
                for k in cands {
                    let mut c = w.clone();
                    c.threads[t][i].kind = k;
                    if self.fails(&c, s) {
                        *w = c;
                        break;
                    }
                }
            }
        }
        // use shared regex instead of clones
        for t in 0..w.threads.len() {
            for i in 0..w.threads[t].len() {
                let mut c = w.clone();
                let changed = match &mut c.threads[t][i].kind {
                    OpKind::Open { re, .. } | OpKind::Find { re, .. } | OpKind::Replace { re, .. } | OpKind::Burst { re, .. } => {
                        if let ReRef::Clone(_) = re {
                            *re = ReRef::Shared(0);
                            true
                        } else {
                            false
                        }
                    }
                    _ => false,
                };
                if changed && self.fails(&c, s) {
                    *w = c;
                }
            }
        }
        // executor / input kind simplification
        for r in 0..w.regexes.len() {
            if w.regexes[r].exec != ExecKind::Backtrack {
                let mut c = w.clone();
                c.regexes[r].exec = ExecKind::Backtrack;
                if self.fails(&c, s) {
                    *w = c;
                }
            }
            if w.regexes[r].input != InputKind::Utf8 {
                let mut c = w.clone();
                c.regexes[r].input = InputKind::Utf8;
                if self.fails(&c, s) {
                    *w = c;
                }
            }
            if !w.regexes[r].flags.is_empty() {
                for k in 0..w.regexes[r].flags.len() {
                    let mut c = w.clone();
                    let mut f: Vec<char> = c.regexes[r].flags.chars().collect();
                    if k < f.len() {
                        f.remove(k);
                    }
                    c.regexes[r].flags = f.into_iter().collect();
                    if self.fails(&c, s) {
                        *w = c;
                    }
                }
            }
        }
    }

    fn has_rewrite(w: &World, hay: usize) -> bool {
        let n = w.hays.len() as u32;
        w.threads.iter().flatten().any(|op| matches!(&op.kind, OpKind::Rewrite { hay: h, .. } if (*h % n) as usize == hay))
    }

    fn shorten_hays(&mut self, w: &mut World, s: &mut Vec<Segment>) {
        for h in 0..w.hays.len() {
            if Self::has_rewrite(w, h) {
                continue;
            }
            // halves first, then single characters
            loop {
                let chars: Vec<char> = w.hays[h].text.chars().collect();
                if chars.len() < 2 {
                    break;
                }
                let half = chars.len() / 2;
                let a: String = chars[..half].iter().collect();
                let b: String = chars[half..].iter().collect();
                let mut done = false;
                for cand in [a, b] {
                    let mut c = w.clone();
                    c.hays[h].text = cand;
                    if self.fails(&c, s) {
                        *w = c;
                        done = true;
                        break;
                    }
                }
                if !done {
                    break;
                }
            }
            let mut i = 0;
            loop {
                let chars: Vec<char> = w.hays[h].text.chars().collect();
                if i >= chars.len() {
                    break;
                }
                let mut cs = chars.clone();
                cs.remove(i);
                let mut c = w.clone();
                c.hays[h].text = cs.into_iter().collect();
                if self.fails(&c, s) {
                    *w = c;
                } else {
                    i += 1;
                }
            }
            // prefer plain ASCII letters
            let chars: Vec<char> = w.hays[h].text.chars().collect();
            for (i, ch) in chars.iter().enumerate() {
                if !ch.is_ascii() {
                    continue;
                }
                if *ch != 'a' {
                    let mut cs = chars.clone();
                    cs[i] = 'a';
                    let mut c = w.clone();
                    c.hays[h].text = cs.into_iter().collect();
                    if self.fails(&c, s) {
                        *w = c;
                    }
                }
            }
        }
    }

    fn shorten_patterns(&mut self, w: &mut World, s: &mut Vec<Segment>) {
        for r in 0..w.regexes.len() {
            let mut i = 0;
            loop {
                let chars: Vec<char> = w.regexes[r].pattern.chars().collect();
                if i >= chars.len() {
                    break;
                }
                let mut progressed = false;
                // try deleting 1..=3 chars at i (so that "(?:" or "{2}" can vanish)
                for width in [1usize, 2, 3, 4] {
                    if i + width > chars.len() {
                        break;
                    }
                    let mut cs = chars.clone();
                    cs.drain(i..i + width);
                    let cand: String = cs.into_iter().collect();
                    if regress::Regex::with_flags(&cand, w.regexes[r].flags.as_str()).is_err() {
                        continue;
                    }
                    let mut c = w.clone();
                    c.regexes[r].pattern = cand;
                    if self.fails(&c, s) {
                        *w = c;
                        progressed = true;
                        break;
                    }
                }
                // try deleting a balanced group wrapper "( ... )" starting at i
                if !progressed && chars[i] == '(' {
                    if let Some(close) = matching_paren(&chars, i) {
                        let mut cs = chars.clone();
                        cs.remove(close);
                        let open_len = if chars.get(i + 1) == Some(&'?') {
                            if chars.get(i + 2) == Some(&'<') && chars.get(i + 3) != Some(&'=') && chars.get(i + 3) != Some(&'!') {
                                // named group (?<name>
                                chars[i..].iter().position(|c| *c == '>').map(|p| p + 1).unwrap_or(1)
                            } else if chars.get(i + 2) == Some(&'<') {
                                4
                            } else {
                                3
                            }
                        } else {
                            1
                        };
                        if i + open_len <= close {
                            cs.drain(i..i + open_len);
                            let cand: String = cs.into_iter().collect();
                            if regress::Regex::with_flags(&cand, w.regexes[r].flags.as_str()).is_ok() {
                                let mut c = w.clone();
                                c.regexes[r].pattern = cand;
                                if self.fails(&c, s) {
                                    *w = c;
                                    progressed = true;
                                }
                            }
                        }
                    }
                }
                if !progressed {
                    i += 1;
                }
            }
        }
    }
}

fn matching_paren(cs: &[char], open: usize) -> Option<usize> {
    let mut depth = 0i32;
    let mut i = open;
    let mut in_class = false;
    while i < cs.len() {
        match cs[i] {
            '\\' => i += 1,
            '[' if !in_class => in_class = true,
            ']' if in_class => in_class = false,
            '(' if !in_class => depth += 1,
            ')' if !in_class => {
                depth -= 1;
                if depth == 0 {
                    return Some(i);
                }
            }
            _ => {}
        }
        i += 1;
    }
    None
}
