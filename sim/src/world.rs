//! World description: pure data, a function of (base seed, run index) when
//! generated, or read back from a replay file. Executing a world never consults
//! the generator.

use crate::json::J;
use crate::rng::Fnv;
use crate::sched::{Segment, Strategy};

#[derive(Clone, Copy, PartialEq, Eq, Debug, Hash)]
pub enum ExecKind {
    Backtrack,
    Pike,
}

pub const ADAPTORS: [&str; 8] = ["count", "last", "nth", "size_hint", "fold", "for_each", "collect", "find_nonempty"];

#[derive(Clone, Copy, PartialEq, Eq, Debug, Hash)]
pub enum InputKind {
    Utf8,
    Ascii,
}

#[derive(Clone, Debug, PartialEq)]
pub struct RegexSpec {
    pub pattern: String,
    pub flags: String,
    pub exec: ExecKind,
    pub input: InputKind,
}

#[derive(Clone, Copy, Debug, PartialEq)]
pub enum Start {
    Zero,
    /// k-th char boundary of the current content (mod number of boundaries)
    Boundary(u32),
    Len,
    /// len + n, n >= 1
    Beyond(u32),
}

#[derive(Clone, Copy, Debug, PartialEq)]
pub enum ReRef {
    Shared(u32),
    /// per-thread clone slot
    Clone(u32),
}

#[derive(Clone, Debug, PartialEq)]
pub enum OpKind {
    Open { h: u32, re: ReRef, hay: u32, start: Start },
    Next { h: u32 },
    Drain { h: u32 },
    DropIter { h: u32 },
    /// drop the iterator and reopen it at the model's cursor
    Resume { h: u32 },
    CloneRegex { c: u32, re: u32 },
    DropClone { c: u32 },
    Find { re: ReRef, hay: u32 },
    Replace { re: ReRef, hay: u32, tpl: String, all: bool },
    /// replace_all_with whose closure runs a nested search on `inner`
    ReplaceNested { re: ReRef, hay: u32, inner: ReRef },
    Rewrite { hay: u32, text: String },
    /// compile the spec afresh on this thread (hook armed) and run one find
    Compile { re: u32, hay: u32 },
    /// drive the iterator through one of std's Iterator methods instead of next():
    /// kind 0 = count (consumes), 1 = last (consumes), 2 = nth(k), 3 = size_hint
    Adaptor { h: u32, kind: u32, k: u32 },
    /// replace_all_with whose closure panics on its k-th call (panic in user code: unwinds
    /// out of the library between two matches, dropping the live iterator)
    ReplacePanic { re: ReRef, hay: u32, k: u32 },
    /// the same find repeated n times on one Regex object: a long history (adaptive thresholds)
    Burst { re: ReRef, hay: u32, n: u32 },
}

#[derive(Clone, Debug, PartialEq)]
pub struct Op {
    pub kind: OpKind,
    /// 0 = none; otherwise cancel the op when its k-th hook call happens
    pub cancel_at: u64,
}

#[derive(Clone, Debug, PartialEq)]
pub struct Hay {
    pub text: String,
    /// Some(t): private to thread t and rewritable; None: shared, immutable
    pub owner: Option<u32>,
}

#[derive(Clone, Debug, PartialEq)]
pub struct Knobs {
    pub fuel: u64,
    pub strategy: Strategy,
    pub sched_seed: u64,
    pub max_switches: u64,
    /// references of this world's one-shot searches are also computed in pristine
    /// grandchild processes (see pristine.rs)
    pub pristine: bool,
}

#[derive(Clone, Debug, PartialEq)]
pub struct World {
    pub regexes: Vec<RegexSpec>,
    pub hays: Vec<Hay>,
    pub threads: Vec<Vec<Op>>,
    pub knobs: Knobs,
}

impl World {
    pub fn nops(&self) -> usize {
        self.threads.iter().map(|t| t.len()).sum()
    }

    /// Hash of everything except the schedule knobs.
    pub fn hash(&self) -> u64 {
        let mut h = Fnv::default();
        let j = self.to_json_parts();
        h.str(&j.0.to_string());
        h.str(&j.1.to_string());
        h.str(&j.2.to_string());
        h.u64(self.knobs.fuel);
        h.0
    }

    fn to_json_parts(&self) -> (J, J, J) {
        let regexes = J::Arr(
            self.regexes
                .iter()
                .map(|r| {
                    J::obj()
                        .set("pattern", J::s(&r.pattern))
                        .set("flags", J::s(&r.flags))
                        .set("exec", J::s(match r.exec {
                            ExecKind::Backtrack => "backtrack",
                            ExecKind::Pike => "pikevm",
                        }))
                        .set("input", J::s(match r.input {
                            InputKind::Utf8 => "utf8",
                            InputKind::Ascii => "ascii",
                        }))
                })
                .collect(),
        );
        let hays = J::Arr(
            self.hays
                .iter()
                .map(|h| {
                    let o = J::obj().set("text", J::s(&h.text));
                    match h.owner {
                        Some(t) => o.set("owner", J::u(t as u64)),
                        None => o,
                    }
                })
                .collect(),
        );
        let threads = J::Arr(self.threads.iter().map(|t| J::Arr(t.iter().map(op_to_json).collect())).collect());
        (regexes, hays, threads)
    }

    pub fn to_json(&self, schedule: &[Segment]) -> J {
        let (regexes, hays, threads) = self.to_json_parts();
        J::obj()
            .set("regexes", regexes)
            .set("haystacks", hays)
            .set("threads", threads)
            .set("fuel", J::u(self.knobs.fuel))
            .set("strategy", J::s(&self.knobs.strategy.name()))
            .set("sched_seed", J::u(self.knobs.sched_seed))
            .set("max_switches", J::u(self.knobs.max_switches))
            .set("pristine", J::Bool(self.knobs.pristine))
            .set("schedule", schedule_to_json(schedule))
    }

    /// Read a world and its explicit schedule from a replay object.
    pub fn from_json(j: &J) -> Result<(World, Vec<Segment>), String> {
        let mut regexes = Vec::new();
        for r in j.get("regexes").and_then(|v| v.as_arr()).ok_or("regexes")? {
            regexes.push(RegexSpec {
                pattern: r.get("pattern").and_then(|v| v.as_str()).ok_or("pattern")?.to_string(),
                flags: r.get("flags").and_then(|v| v.as_str()).unwrap_or("").to_string(),
                exec: match r.get("exec").and_then(|v| v.as_str()).unwrap_or("backtrack") {
                    "pikevm" => ExecKind::Pike,
                    _ => ExecKind::Backtrack,
                },
                input: match r.get("input").and_then(|v| v.as_str()).unwrap_or("utf8") {
                    "ascii" => InputKind::Ascii,
                    _ => InputKind::Utf8,
                },
            });
        }
        let mut hays = Vec::new();
        for h in j.get("haystacks").and_then(|v| v.as_arr()).ok_or("haystacks")? {
            match h {
                J::Str(s) => hays.push(Hay { text: s.clone(), owner: None }),
                _ => hays.push(Hay {
                    text: h.get("text").and_then(|v| v.as_str()).ok_or("hay text")?.to_string(),
                    owner: h.get("owner").and_then(|v| v.as_u64()).map(|v| v as u32),
                }),
            }
        }
        let mut threads = Vec::new();
        for t in j.get("threads").and_then(|v| v.as_arr()).ok_or("threads")? {
            let mut ops = Vec::new();
            for o in t.as_arr().ok_or("thread")? {
                ops.push(op_from_json(o)?);
            }
            threads.push(ops);
        }
        let schedule = schedule_from_json(j.get("schedule").unwrap_or(&J::Arr(vec![])))?;
        let knobs = Knobs {
            fuel: j.get("fuel").and_then(|v| v.as_u64()).unwrap_or(20_000),
            strategy: Strategy::Explicit,
            sched_seed: j.get("sched_seed").and_then(|v| v.as_u64()).unwrap_or(0),
            max_switches: j.get("max_switches").and_then(|v| v.as_u64()).unwrap_or(400),
            pristine: j.get("pristine").and_then(|v| v.as_bool()).unwrap_or(false),
        };
        Ok((World { regexes, hays, threads, knobs }, schedule))
    }
}

pub fn schedule_to_json(s: &[Segment]) -> J {
    J::Arr(s.iter().map(|(t, n)| J::Arr(vec![J::u(*t as u64), J::u(*n)])).collect())
}

pub fn schedule_from_json(j: &J) -> Result<Vec<Segment>, String> {
    let mut out = Vec::new();
    for s in j.as_arr().ok_or("schedule")? {
        let a = s.as_arr().ok_or("segment")?;
        if a.len() != 2 {
            return Err("segment arity".into());
        }
        out.push((a[0].as_u64().ok_or("seg tid")? as u32, a[1].as_u64().ok_or("seg n")?));
    }
    Ok(out)
}

fn reref_to_json(r: &ReRef) -> J {
    match r {
        ReRef::Shared(i) => J::u(*i as u64),
        ReRef::Clone(c) => J::s(&format!("clone{}", c)),
    }
}

fn reref_from_json(j: &J) -> Result<ReRef, String> {
    match j {
        J::Int(i) => Ok(ReRef::Shared(*i as u32)),
        J::Str(s) if s.starts_with("clone") => s[5..].parse::<u32>().map(ReRef::Clone).map_err(|e| e.to_string()),
        _ => Err("bad regex ref".into()),
    }
}

fn start_to_json(s: &Start) -> J {
    match s {
        Start::Zero => J::s("0"),
        Start::Boundary(k) => J::s(&format!("b{}", k)),
        Start::Len => J::s("len"),
        Start::Beyond(n) => J::s(&format!("len+{}", n)),
    }
}

fn start_from_json(j: &J) -> Result<Start, String> {
    let s = j.as_str().ok_or("start")?;
    if s == "0" {
        Ok(Start::Zero)
    } else if s == "len" {
        Ok(Start::Len)
    } else if let Some(n) = s.strip_prefix("len+") {
        n.parse().map(Start::Beyond).map_err(|e: std::num::ParseIntError| e.to_string())
    } else if let Some(k) = s.strip_prefix('b') {
        k.parse().map(Start::Boundary).map_err(|e: std::num::ParseIntError| e.to_string())
    } else {
        Err(format!("bad start {}", s))
    }
}

pub fn op_to_json(op: &Op) -> J {
    let o = match &op.kind {
        OpKind::Open { h, re, hay, start } => J::obj()
            .set("op", J::s("open"))
            .set("h", J::u(*h as u64))
            .set("re", reref_to_json(re))
            .set("hay", J::u(*hay as u64))
            .set("start", start_to_json(start)),
        OpKind::Next { h } => J::obj().set("op", J::s("next")).set("h", J::u(*h as u64)),
        OpKind::Drain { h } => J::obj().set("op", J::s("drain")).set("h", J::u(*h as u64)),
        OpKind::DropIter { h } => J::obj().set("op", J::s("drop")).set("h", J::u(*h as u64)),
        OpKind::Resume { h } => J::obj().set("op", J::s("resume")).set("h", J::u(*h as u64)),
        OpKind::CloneRegex { c, re } => J::obj().set("op", J::s("clone")).set("c", J::u(*c as u64)).set("re", J::u(*re as u64)),
        OpKind::DropClone { c } => J::obj().set("op", J::s("dropclone")).set("c", J::u(*c as u64)),
        OpKind::Find { re, hay } => J::obj().set("op", J::s("find")).set("re", reref_to_json(re)).set("hay", J::u(*hay as u64)),
        OpKind::Replace { re, hay, tpl, all } => J::obj()
            .set("op", J::s(if *all { "replace_all" } else { "replace" }))
            .set("re", reref_to_json(re))
            .set("hay", J::u(*hay as u64))
            .set("tpl", J::s(tpl)),
        OpKind::ReplaceNested { re, hay, inner } => J::obj()
            .set("op", J::s("replace_nested"))
            .set("re", reref_to_json(re))
            .set("hay", J::u(*hay as u64))
            .set("inner", reref_to_json(inner)),
        OpKind::Rewrite { hay, text } => J::obj().set("op", J::s("rewrite")).set("hay", J::u(*hay as u64)).set("text", J::s(text)),
        OpKind::Compile { re, hay } => J::obj().set("op", J::s("compile")).set("re", J::u(*re as u64)).set("hay", J::u(*hay as u64)),
        OpKind::Adaptor { h, kind, k } => J::obj().set("op", J::s(ADAPTORS[(*kind % 8) as usize])).set("h", J::u(*h as u64)).set("k", J::u(*k as u64)),
        OpKind::ReplacePanic { re, hay, k } => J::obj().set("op", J::s("replace_panic")).set("re", reref_to_json(re)).set("hay", J::u(*hay as u64)).set("k", J::u(*k as u64)),
        OpKind::Burst { re, hay, n } => J::obj().set("op", J::s("burst")).set("re", reref_to_json(re)).set("hay", J::u(*hay as u64)).set("n", J::u(*n as u64)),
    };
    if op.cancel_at != 0 {
        o.set("cancel_at", J::u(op.cancel_at))
    } else {
        o
    }
}

pub fn op_from_json(j: &J) -> Result<Op, String> {
    let name = j.get("op").and_then(|v| v.as_str()).ok_or("op name")?;
    let u = |k: &str| -> Result<u32, String> { j.get(k).and_then(|v| v.as_u64()).map(|v| v as u32).ok_or(format!("op field {}", k)) };
    let kind = match name {
        "open" => OpKind::Open {
            h: u("h")?,
            re: reref_from_json(j.get("re").ok_or("re")?)?,
            hay: u("hay")?,
            start: start_from_json(j.get("start").ok_or("start")?)?,
        },
        "next" => OpKind::Next { h: u("h")? },
        "drain" => OpKind::Drain { h: u("h")? },
        "drop" => OpKind::DropIter { h: u("h")? },
        "resume" => OpKind::Resume { h: u("h")? },
        "clone" => OpKind::CloneRegex { c: u("c")?, re: u("re")? },
        "dropclone" => OpKind::DropClone { c: u("c")? },
        "find" => OpKind::Find { re: reref_from_json(j.get("re").ok_or("re")?)?, hay: u("hay")? },
        "replace" | "replace_all" => OpKind::Replace {
            re: reref_from_json(j.get("re").ok_or("re")?)?,
            hay: u("hay")?,
            tpl: j.get("tpl").and_then(|v| v.as_str()).unwrap_or("").to_string(),
            all: name == "replace_all",
        },
        "replace_nested" => OpKind::ReplaceNested {
            re: reref_from_json(j.get("re").ok_or("re")?)?,
            hay: u("hay")?,
            inner: reref_from_json(j.get("inner").ok_or("inner")?)?,
        },
        "rewrite" => OpKind::Rewrite { hay: u("hay")?, text: j.get("text").and_then(|v| v.as_str()).ok_or("text")?.to_string() },
        "compile" => OpKind::Compile { re: u("re")?, hay: u("hay")? },
        "count" | "last" | "nth" | "size_hint" | "fold" | "for_each" | "collect" | "find_nonempty" => OpKind::Adaptor { h: u("h")?, kind: ADAPTORS.iter().position(|x| *x == name).unwrap() as u32, k: u("k").unwrap_or(0) },
        "replace_panic" => OpKind::ReplacePanic { re: reref_from_json(j.get("re").ok_or("re")?)?, hay: u("hay")?, k: u("k")? },
        "burst" => OpKind::Burst { re: reref_from_json(j.get("re").ok_or("re")?)?, hay: u("hay")?, n: u("n")? },
        _ => return Err(format!("unknown op {}", name)),
    };
    Ok(Op { kind, cancel_at: j.get("cancel_at").and_then(|v| v.as_u64()).unwrap_or(0) })
}
