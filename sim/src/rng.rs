//! Seeded PRNG: splitmix64 for stream derivation, xoshiro256** for draws.
//! Everything random in a world derives from (base seed, run index) through here.

#[inline]
pub fn splitmix64(x: &mut u64) -> u64 {
    *x = x.wrapping_add(0x9E37_79B9_7F4A_7C15);
    let mut z = *x;
    z = (z ^ (z >> 30)).wrapping_mul(0xBF58_476D_1CE4_E5B9);
    z = (z ^ (z >> 27)).wrapping_mul(0x94D0_49BB_1331_11EB);
    z ^ (z >> 31)
}

#[derive(Clone, Debug)]
pub struct Rng {
    s: [u64; 4],
}

impl Rng {
    pub fn new(seed: u64) -> Rng {
        let mut x = seed;
        let mut s = [0u64; 4];
        for v in s.iter_mut() {
            *v = splitmix64(&mut x);
        }
        if s == [0, 0, 0, 0] {
            s[0] = 1;
        }
        Rng { s }
    }

    /// Root seed of world `run` under base seed `base`.
    pub fn world_root(base: u64, run: u64) -> u64 {
        let mut x = base ^ 0x9E37_79B9_7F4A_7C15u64.wrapping_mul(run.wrapping_add(1));
        splitmix64(&mut x)
    }

    /// Independent sub-stream `k` of a root seed.
    pub fn stream(root: u64, k: u64) -> Rng {
        let mut x = root ^ k.wrapping_mul(0xD6E8_FEB8_6659_FD93);
        let a = splitmix64(&mut x);
        Rng::new(a)
    }

    #[inline]
    pub fn next_u64(&mut self) -> u64 {
        let result = self.s[1].wrapping_mul(5).rotate_left(7).wrapping_mul(9);
        let t = self.s[1] << 17;
        self.s[2] ^= self.s[0];
        self.s[3] ^= self.s[1];
        self.s[1] ^= self.s[2];
        self.s[0] ^= self.s[3];
        self.s[2] ^= t;
        self.s[3] = self.s[3].rotate_left(45);
        result
    }

    /// Uniform in 0..n (n > 0).
    #[inline]
    pub fn below(&mut self, n: u64) -> u64 {
        debug_assert!(n > 0);
        // multiply-shift; bias is irrelevant here
        ((self.next_u64() as u128 * n as u128) >> 64) as u64
    }

    #[inline]
    pub fn usize_below(&mut self, n: usize) -> usize {
        self.below(n as u64) as usize
    }

    /// Inclusive range.
    #[inline]
    pub fn range(&mut self, lo: u64, hi: u64) -> u64 {
        lo + self.below(hi - lo + 1)
    }

    #[inline]
    pub fn chance(&mut self, num: u64, den: u64) -> bool {
        self.below(den) < num
    }

    pub fn pick<'a, T>(&mut self, xs: &'a [T]) -> &'a T {
        &xs[self.usize_below(xs.len())]
    }
}

/// FNV-1a 64-bit, used for event-log and world hashes.
#[derive(Clone, Copy, Debug)]
pub struct Fnv(pub u64);

impl Default for Fnv {
    fn default() -> Self {
        Fnv(0xcbf2_9ce4_8422_2325)
    }
}

impl Fnv {
    #[inline]
    pub fn byte(&mut self, b: u8) {
        self.0 ^= b as u64;
        self.0 = self.0.wrapping_mul(0x0000_0100_0000_01B3);
    }
    #[inline]
    pub fn u64(&mut self, v: u64) {
        for i in 0..8 {
            self.byte((v >> (i * 8)) as u8);
        }
    }
    #[inline]
    pub fn bytes(&mut self, bs: &[u8]) {
        for &b in bs {
            self.byte(b);
        }
        self.byte(0xff);
    }
    #[inline]
    pub fn str(&mut self, s: &str) {
        self.bytes(s.as_bytes());
    }
}
