//! Seeded PRNG: splitmix64 for stream derivation, xoshiro256** for draws.
//! Everything random in a world derives from (base seed, run index) through here.

#[inline]
pub fn splitmix64(x: &mut u64) -> u64 {
    *x = x.wrapping_add(0x9E37_79B9_7F4A_7C15);
    let mut z = *x;
    z = (z ^ (z >> 30)).wrapping_mul(0xBF58_476D_1CE4_E5B9);
    z = (z ^ (z >> 27)).wrapping_mul(0x94D0_49BB_1331_11EB);
    z ^ (z >> 31)
}

#[derive(Clone, Debug)]
pub struct Rng {
    s: [u64; 4],
}

impl Rng {
    pub fn new(seed: u64) -> Rng {
        let mut x = seed;
        let mut s = [0u64; 4];
        for v in s.iter_mut() {
            *v = splitmix64(&mut x);
        }
        if s == [0, 0, 0, 0] {
            s[0] = 1;
        }
        Rng { s }
    }

    /// Root seed of world `run` under base seed `base`.
    pub fn world_root(base: u64, run: u64) -> u64 {
        let mut x = base ^ 0x9E37_79B9_7F4A_7C15u64.wrapping_mul(run.wrapping_add(1));
        splitmix64(&mut x)
    }

    /// Independent sub-stream `k` of a root seed.
    pub fn stream(root: u64, k: u64) -> Rng {
        let mut x = root ^ k.wrapping_mul(0xD6E8_FEB8_6659_FD93);
        let a = splitmix64(&mut x);
        Rng::new(a)
    }

    #[inline]
    pub fn next_u64(&mut self) -> u64 {
        let result = self.s[1].wrapping_mul(5).rotate_left(7).wrapping_mul(9);
        let t = self.s[1] << 17;
        self.s[2] ^= self.s[0];
        self.s[3] ^= self.s[1];
        self.s[1] ^= self.s[2];
        self.s[0] ^= self.s[3];
        self.s[2] ^= t;
        self.s[3] = self.s[3].rotate_left(45);
        result
    }

    /// Uniform in 0..n (n > 0).
    #[inline]
    pub fn below(&mut self, n: u64) -> u64 {
        debug_assert!(n > 0);
        // multiply-shift; bias is irrelevant here
        ((self.next_u64() as u128 * n as u128) >> 64) as u64
    }

    #[inline]
    pub fn usize_below(&mut self, n: usize) -> usize {
        self.below(n as u64) as usize
    }

    /// Inclusive range.
    #[inline]
    pub fn range(&mut self, lo: u64, hi: u64) -> u64 {
        lo + self.below(hi - lo + 1)
    }

    #[inline]
    pub fn chance(&mut self, num: u64, den: u64) -> bool {
        self.below(den) < num
    }

    pub fn pick<'a, T>(&mut self, xs: &'a [T]) -> &'a T {
        &xs[self.usize_below(xs.len())]
    }
}

/// FNV-1a 64-bit, used for event-log and world hashes.
#[derive(Clone, Copy, Debug)]
pub struct Fnv(pub u64);

impl Default for Fnv {
    fn default() -> Self {
        Fnv(0xcbf2_9ce4_8422_2325)
    }
}

impl Fnv {
    #[inline]
    pub fn byte(&mut self, b: u8) {
        self.0 ^= b as u64;
        self.0 = self.0.wrapping_mul(0x0000_0100_0000_01B3);
    }
    #[inline]
    pub fn u64(&mut self, v: u64) {
        for i in 0..8 {
            self.byte((v >> (i * 8)) as u8);
        }
    }
    #[inline]
    pub fn bytes(&mut self, bs: &[u8]) {
        for &b in bs {
            self.byte(b);
        }
        self.byte(0xff);
    }
    #[inline]
    pub fn str(&mut self, s: &str) {
        self.bytes(s.as_bytes());
    }
}

/// Deterministic hasher for the harness' own hash maps: with std's per-process random
/// SipHash keys the order in which a map's entries are dropped (and their heap blocks
/// freed) differs from run to run, and with it every later allocation address - which
/// defects keyed on addresses would turn into unreproducible verdicts.
#[derive(Default, Clone, Copy)]
pub struct DetHasher(u64);

impl std::hash::Hasher for DetHasher {
    fn finish(&self) -> u64 {
        // final avalanche (splitmix64 finaliser)
        let mut z = self.0 ^ 0x9E37_79B9_7F4A_7C15;
        z = (z ^ (z >> 30)).wrapping_mul(0xBF58_476D_1CE4_E5B9);
        z = (z ^ (z >> 27)).wrapping_mul(0x94D0_49BB_1331_11EB);
        z ^ (z >> 31)
    }
    fn write(&mut self, bytes: &[u8]) {
        let mut h = if self.0 == 0 { 0xcbf2_9ce4_8422_2325 } else { self.0 };
        for &b in bytes {
            h ^= b as u64;
            h = h.wrapping_mul(0x0000_0100_0000_01B3);
        }
        self.0 = h;
    }
}

pub type DetBuild = std::hash::BuildHasherDefault<DetHasher>;
pub type DetMap<K, V> = std::collections::HashMap<K, V, DetBuild>;
pub type DetSet<K> = std::collections::HashSet<K, DetBuild>;

/// The randomness seam. std seeds every `HashMap`'s SipHash keys from `getrandom` (once per
/// thread, then incremented per map); regress' parser keeps named groups in such maps, so
/// with real randomness the order in which their entries are dropped - and therefore the
/// allocator's address sequence - differs from process to process. This definition
/// interposes the C library's: a counter-driven splitmix64 stream, the same in every run.
/// (Nothing in the simulator or in regress needs real entropy.)
static GETRANDOM_CTR: std::sync::atomic::AtomicU64 = std::sync::atomic::AtomicU64::new(0x5EED_0F_7E57);
pub static GETRANDOM_CALLS: std::sync::atomic::AtomicU64 = std::sync::atomic::AtomicU64::new(0);

#[no_mangle]
pub unsafe extern "C" fn getrandom(buf: *mut u8, len: usize, _flags: u32) -> isize {
    use std::sync::atomic::Ordering::Relaxed;
    GETRANDOM_CALLS.fetch_add(1, Relaxed);
    let mut i = 0;
    while i < len {
        let mut x = GETRANDOM_CTR.fetch_add(0x9E37_79B9_7F4A_7C15, Relaxed);
        x = (x ^ (x >> 30)).wrapping_mul(0xBF58_476D_1CE4_E5B9);
        x = (x ^ (x >> 27)).wrapping_mul(0x94D0_49BB_1331_11EB);
        x ^= x >> 31;
        let bytes = x.to_le_bytes();
        let mut k = 0;
        while k < 8 && i < len {
            *buf.add(i) = bytes[k];
            i += 1;
            k += 1;
        }
    }
    len as isize
}
