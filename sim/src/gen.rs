//! World generator: a pure function of (base seed, run index, profile).
//! Three independent PRNG streams (workload, schedule, knobs) so that editing a
//! script does not reshuffle schedule draws and vice versa.

use crate::rng::Rng;
use crate::sched::Strategy;
use crate::world::*;

pub const CORPUS: &str = include_str!("../../corpus/patterns.txt");

pub fn corpus() -> Vec<(String, String)> {
    CORPUS
        .lines()
        .filter(|l| !l.starts_with('#') && l.contains('\t'))
        .map(|l| {
            let (f, p) = l.split_once('\t').unwrap();
            (f.to_string(), p.to_string())
        })
        .collect()
}

#[derive(Clone, Copy, PartialEq, Debug)]
pub enum Profile {
    /// many threads on few shared objects, heavy preemption
    C19,
    /// iterator histories: more handles, empty-match patterns, odd starts
    C09,
}

const LITS: &[&str] = &["a", "b", "c", "x", "1", " ", "é", "ß", "k", "K", "𝒳", "\\n", "-"];
const LITS_ASCII: &[&str] = &["a", "b", "c", "x", "1", " ", "k", "K", "\\n", "-"];

struct PatGen<'a> {
    rng: &'a mut Rng,
    ascii: bool,
    groups: u32,
    names: Vec<String>,
    mask: u32,
    budget: i32,
}

const M_LOOK: u32 = 1;
const M_BACKREF: u32 = 2;
const M_NAMED: u32 = 4;
const M_LAZY: u32 = 8;
const M_COUNTED: u32 = 16;
const M_ANCHOR: u32 = 32;
const M_CLASS: u32 = 64;
const M_EMPTY: u32 = 128;

impl<'a> PatGen<'a> {
    fn lit(&mut self) -> String {
        let l = if self.ascii { LITS_ASCII } else { LITS };
        l[self.rng.usize_below(l.len())].to_string()
    }

    fn atom(&mut self, depth: u32) -> String {
        self.budget -= 1;
        let r = self.rng.below(100);
        if depth == 0 || self.budget <= 0 || r < 40 {
            return match self.rng.below(12) {
                0 => ".".into(),
                1 if self.mask & M_CLASS != 0 => "\\d".into(),
                2 if self.mask & M_CLASS != 0 => "\\w".into(),
                3 if self.mask & M_CLASS != 0 => "\\s".into(),
                4 if self.mask & M_CLASS != 0 => "[a-c]".into(),
                5 if self.mask & M_CLASS != 0 => "[^a]".into(),
                6 if self.mask & M_CLASS != 0 && !self.ascii => ["[aé𝒳]", "[^é]", "[^ß𝒳]"][self.rng.usize_below(3)].into(),
                7 if self.mask & M_CLASS != 0 => "[ab]".into(),
                _ => self.lit(),
            };
        }
        if r < 50 && self.mask & M_ANCHOR != 0 {
            return match self.rng.below(4) {
                0 => "^".into(),
                1 => "$".into(),
                2 => "\\b".into(),
                _ => "\\B".into(),
            };
        }
        if r < 58 && self.mask & M_BACKREF != 0 && self.groups > 0 {
            if self.mask & M_NAMED != 0 && !self.names.is_empty() && self.rng.chance(1, 3) {
                let n = self.rng.usize_below(self.names.len());
                return format!("\\k<{}>", self.names[n]);
            }
            return format!("\\{}", 1 + self.rng.below(self.groups as u64));
        }
        if r < 68 && self.mask & M_LOOK != 0 {
            let k = ["(?=", "(?!", "(?<=", "(?<!"][self.rng.usize_below(4)];
            let inner = self.alt(depth - 1);
            return format!("{}{})", k, inner);
        }
        if r < 84 {
            // capturing group
            self.groups += 1;
            if self.mask & M_NAMED != 0 && self.rng.chance(1, 3) {
                let name = ["x", "y", "n"][self.rng.usize_below(3)].to_string();
                // duplicate names are only legal in different alternatives; allow the
                // generator to produce both legal and illegal placements (Err is an outcome)
                if !self.names.contains(&name) {
                    self.names.push(name.clone());
                }
                let inner = self.alt(depth - 1);
                return format!("(?<{}>{})", name, inner);
            }
            let inner = self.alt(depth - 1);
            return format!("({})", inner);
        }
        let inner = self.alt(depth - 1);
        format!("(?:{})", inner)
    }

    fn quantified(&mut self, depth: u32) -> String {
        let a = self.atom(depth);
        let r = self.rng.below(100);
        let q = if r < 45 {
            ""
        } else if r < 58 {
            "*"
        } else if r < 70 {
            "+"
        } else if r < 80 {
            "?"
        } else if self.mask & M_COUNTED != 0 {
            ["{2}", "{1,2}", "{0,2}", "{2,}", "{2,3}", "{0}", "{1}"][self.rng.usize_below(7)]
        } else {
            "*"
        };
        // quantifying an assertion is a syntax error in some modes; keep it anyway sometimes
        let lazy = if !q.is_empty() && self.mask & M_LAZY != 0 && self.rng.chance(1, 4) { "?" } else { "" };
        format!("{}{}{}", a, q, lazy)
    }

    fn cat(&mut self, depth: u32) -> String {
        let n = if self.mask & M_EMPTY != 0 && self.rng.chance(1, 10) { 0 } else { 1 + self.rng.below(3) };
        let mut s = String::new();
        for _ in 0..n {
            s.push_str(&self.quantified(depth));
        }
        s
    }

    fn alt(&mut self, depth: u32) -> String {
        let n = if self.rng.chance(1, 3) { 2 + self.rng.below(2) } else { 1 };
        let mut parts = Vec::new();
        for _ in 0..n {
            parts.push(self.cat(depth));
        }
        parts.join("|")
    }
}

pub fn gen_pattern(rng: &mut Rng, ascii: bool) -> (String, String) {
    let mask = rng.next_u64() as u32 | if rng.chance(1, 2) { M_CLASS } else { 0 };
    let mut g = PatGen { rng, ascii, groups: 0, names: Vec::new(), mask, budget: 12 };
    let mut p = g.alt(3);
    if p.chars().count() > 40 {
        p = p.chars().take(40).collect();
    }
    let mut flags = String::new();
    for f in ["i", "m", "s", "u"] {
        if rng.chance(1, 5) {
            flags.push_str(f);
        }
    }
    if !flags.contains('u') && rng.chance(1, 20) {
        flags.push('v');
    }
    (flags, p)
}

fn case_partner(c: char) -> Option<char> {
    if c.is_lowercase() {
        let mut u = c.to_uppercase();
        let x = u.next()?;
        if u.next().is_none() && x != c {
            return Some(x);
        }
    } else if c.is_uppercase() {
        let mut l = c.to_lowercase();
        let x = l.next()?;
        if l.next().is_none() && x != c {
            return Some(x);
        }
    }
    None
}

/// Alphabet for haystacks: literal characters of the patterns, their case
/// partners, and fixed extras (multi-byte characters, line terminators).
fn alphabet(patterns: &[&str], ascii: bool) -> Vec<char> {
    let mut a: Vec<char> = Vec::new();
    for p in patterns {
        let mut prev_bs = false;
        for c in p.chars() {
            if prev_bs {
                prev_bs = false;
                continue;
            }
            if c == '\\' {
                prev_bs = true;
                continue;
            }
            if c.is_alphanumeric() || c == ' ' || c == '-' || c == '=' {
                a.push(c);
                if let Some(p) = case_partner(c) {
                    a.push(p);
                }
            }
        }
    }
    // weight the pattern's own letters, then add extras
    let mut out = a.clone();
    out.extend(a.iter());
    out.extend(['a', 'b', 'c', ' ', '1', '\n', 'A', 'B']);
    if !ascii {
        out.extend(['é', 'ß', '𝒳', '\u{2028}', 'K', '\u{212A}']);
    }
    if ascii {
        out.retain(|c| c.is_ascii());
    }
    if out.is_empty() {
        out.push('a');
    }
    out
}

/// Characters at the edges of the UTF-8 encoding: one or more for every lead-byte class
/// (C2..DF two bytes, E0 / E1..EC / ED / EE..EF three bytes, F0 / F1..F3 / F4 four bytes), the
/// first and last code point of every encoded length, the code points around the surrogate
/// gap, and a few assigned letters from scripts with case (Greek, Cyrillic, Armenian) and
/// without (Hebrew, Arabic, Devanagari, Hangul). A world draws a few of them into its
/// haystack alphabet, so that every way of stepping over a character is exercised.
pub const UTF8_EDGE_CHARS: &[char] = &[
    '\u{80}', '\u{ff}', '\u{100}', '\u{17f}', '\u{3a9}', '\u{3c9}', '\u{416}', '\u{436}', '\u{531}', '\u{5d0}', '\u{627}', '\u{7ff}', '\u{800}', '\u{905}', '\u{fff}', '\u{1000}', '\u{1e9e}', '\u{ac00}', '\u{cfff}', '\u{d000}', '\u{d7ff}', '\u{e000}', '\u{f900}', '\u{fffd}',
    '\u{ffff}', '\u{10000}', '\u{10400}', '\u{1f600}', '\u{3ffff}', '\u{40000}', '\u{fffff}', '\u{100000}', '\u{10ffff}',
];

/// Characters that ECMAScript pattern semantics single out: the four line terminators, the
/// WhiteSpace set, the edges of \w / \d, ZWNJ / ZWJ, NUL and DEL, and the characters with
/// irregular case mappings (long s, Kelvin sign, dotted / dotless i, a titlecase digraph,
/// the three sigmas, sharp s and its capital).
pub const SEMANTIC_CHARS: &[char] = &[
    '\r', '\n', '\u{2028}', '\u{2029}', '\t', '\u{b}', '\u{c}', '\u{a0}', '\u{feff}', '\u{1680}', '\u{2003}', '\u{3000}', '_', '0', '9', 'z', 'Z', '\u{200c}', '\u{200d}', '\0', '\u{7f}', '\u{17f}', '\u{212a}', '\u{130}', '\u{131}', '\u{1c5}', '\u{3a3}', '\u{3c3}', '\u{3c2}', '\u{df}',
    '\u{1e9e}', '\u{301}',
];

/// Multi-character sequences that are one unit to a reader but several to the engine.
pub const SEMANTIC_TOKENS: &[&str] = &[
    "\r\n", "\n\r", "\r\n\r\n", "e\u{301}", "\u{1f1fa}\u{1f1f8}", "a\u{200d}b", "\u{2028}\u{2029}", " \t", "_0",
    // emoji of every shape the properties of strings know: two plain ones side by side, a keycap
    // sequence, a flag, a skin-tone modifier sequence, a ZWJ family, a tag sequence (flag of Wales)
    "\u{1f600}\u{1f601}", "1\u{fe0f}\u{20e3}", "\u{1f1e9}\u{1f1ea}\u{1f1eb}\u{1f1f7}", "\u{1f44d}\u{1f3fd}", "\u{1f468}\u{200d}\u{1f469}\u{200d}\u{1f467}", "\u{1f3f4}\u{e0067}\u{e0062}\u{e0077}\u{e006c}\u{e0073}\u{e007f}", "\u{2764}\u{fe0f}",
];

/// 0-3 characters of UTF8_EDGE_CHARS / SEMANTIC_CHARS (none in about a third of the worlds).
pub fn edge_chars(rng: &mut Rng) -> Vec<char> {
    let k = match rng.below(6) {
        0 | 1 => 0,
        2 | 3 => 1,
        4 => 2,
        _ => 3,
    };
    (0..k)
        .map(|_| {
            if rng.chance(1, 2) {
                UTF8_EDGE_CHARS[rng.usize_below(UTF8_EDGE_CHARS.len())]
            } else {
                SEMANTIC_CHARS[rng.usize_below(SEMANTIC_CHARS.len())]
            }
        })
        .collect()
}

/// With probability 1/4 one of SEMANTIC_TOKENS (to be mixed into token haystacks).
pub fn semantic_token(rng: &mut Rng) -> Option<String> {
    if rng.chance(1, 4) {
        Some(SEMANTIC_TOKENS[rng.usize_below(SEMANTIC_TOKENS.len())].to_string())
    } else {
        None
    }
}

/// The pattern with the literal letter or digit closest to its middle exchanged for another
/// one of the same kind (a<->b, c->a, x<->y, 1<->2, k<->m). None if there is no such literal.
pub fn near_twin(pattern: &str) -> Option<String> {
    let cs: Vec<char> = pattern.chars().collect();
    let swap = |c: char| -> Option<char> {
        Some(match c {
            'a' => 'b',
            'b' => 'a',
            'c' => 'a',
            'x' => 'y',
            'y' => 'x',
            '1' => '2',
            '2' => '1',
            'k' => 'm',
            'm' => 'k',
            _ => return None,
        })
    };
    let mut in_braces = false;
    let mut cands: Vec<usize> = Vec::new();
    for (i, &c) in cs.iter().enumerate() {
        match c {
            '{' | '<' => in_braces = true,
            '}' | '>' => in_braces = false,
            _ => {}
        }
        if in_braces || swap(c).is_none() {
            continue;
        }
        if i > 0 && matches!(cs[i - 1], '\\' | '<' | '{' | '-') {
            continue;
        }
        if i + 1 < cs.len() && cs[i + 1] == '-' {
            continue;
        }
        cands.push(i);
    }
    let mid = cs.len() / 2;
    let i = *cands.iter().min_by_key(|&&i| if i > mid { i - mid } else { mid - i })?;
    let mut out = cs.clone();
    out[i] = swap(cs[i])?;
    Some(out.into_iter().collect())
}

/// Maximal literal runs of the patterns ("cd" and "cd" in `(?<=cd)cd`, "aa" in `(?<=a)aa`).
pub fn literal_tokens(patterns: &[&str], ascii: bool) -> Vec<String> {
    let mut toks: Vec<String> = Vec::new();
    for p in patterns {
        let mut cur = String::new();
        let mut prev_bs = false;
        let mut in_class = false;
        // inside a group prefix "(?:", "(?=", "(?<=", "(?<name>": skip up to its terminator
        let mut in_prefix = false;
        let mut prev = ' ';
        for c in p.chars() {
            if in_prefix {
                if c == ':' || c == '=' || c == '!' || c == '>' {
                    in_prefix = false;
                }
                prev = c;
                continue;
            }
            if c == '?' && prev == '(' && !prev_bs && !in_class {
                in_prefix = true;
                prev = c;
                continue;
            }
            prev = c;
            let lit = !prev_bs && !in_class && (c.is_alphanumeric() || c == ' ' || c == '-' || c == '"') && (!ascii || c.is_ascii());
            if lit {
                cur.push(c);
            } else {
                if !cur.is_empty() {
                    toks.push(std::mem::take(&mut cur));
                }
                if prev_bs {
                    prev_bs = false;
                    continue;
                }
                match c {
                    '\\' => prev_bs = true,
                    '[' => in_class = true,
                    ']' => in_class = false,
                    _ => {}
                }
            }
        }
        if !cur.is_empty() {
            toks.push(cur);
        }
    }
    toks
}

/// A haystack made of the patterns' own literal runs glued together, with a few random
/// characters in between: adjacent and overlapping candidate matches, which is where the
/// iteration cursor, the prefilter and look-behind context interact.
pub fn gen_hay_tokens(rng: &mut Rng, toks: &[String], alpha: &[char], max_chars: u64) -> String {
    let mut s = String::new();
    let n = if max_chars > 160 { rng.range(100, 300) } else if max_chars > 32 { rng.range(8, 60) } else { rng.range(2, 8) };
    for _ in 0..n {
        match rng.below(8) {
            0 => s.push(alpha[rng.usize_below(alpha.len())]),
            1 => {
                // a token cut short or doubled: near-misses and overlaps
                let t = &toks[rng.usize_below(toks.len())];
                let cs: Vec<char> = t.chars().collect();
                let k = 1 + rng.usize_below(cs.len());
                s.extend(cs[..k].iter());
            }
            _ => s.push_str(&toks[rng.usize_below(toks.len())]),
        }
        if s.chars().count() as u64 >= max_chars {
            break;
        }
    }
    s.chars().take(max_chars as usize).collect()
}

fn gen_hay(rng: &mut Rng, alpha: &[char], max_chars: u64) -> String {
    let n = match rng.below(10) {
        0 => 0,
        1 => 1,
        2..=5 => rng.range(2, 6),
        _ => rng.range(4, max_chars),
    };
    let mut s = String::new();
    for _ in 0..n {
        s.push(alpha[rng.usize_below(alpha.len())]);
    }
    s
}

/// A different text of exactly the same byte length (for in-place rewrite).
fn gen_rewrite(rng: &mut Rng, alpha: &[char], old: &str) -> String {
    // keep the UTF-8 shape: replace each char by a random char of the same byte width
    let mut s = String::with_capacity(old.len());
    for c in old.chars() {
        let w = c.len_utf8();
        let cands: Vec<char> = alpha.iter().copied().filter(|x| x.len_utf8() == w).collect();
        if cands.is_empty() {
            s.push(c);
        } else {
            s.push(cands[rng.usize_below(cands.len())]);
        }
    }
    debug_assert_eq!(s.len(), old.len());
    s
}

fn gen_start(rng: &mut Rng, profile: Profile) -> Start {
    let odd = if profile == Profile::C09 { 45 } else { 20 };
    let r = rng.below(100);
    if r >= odd {
        Start::Zero
    } else {
        match rng.below(10) {
            0..=4 => Start::Boundary(rng.below(40) as u32),
            5..=7 => Start::Len,
            _ => Start::Beyond(1 + rng.below(3) as u32),
        }
    }
}

const TEMPLATES: &[&str] = &["", "-", "$0", "[$1]", "$2$1", "$$", "${x}", "<$0|$1|$3>", "$10", "${y", "é$0", "<>", "é", "<>", ""];

pub fn gen_world(base: u64, run: u64, profile: Profile) -> World {
    let root = Rng::world_root(base, run);
    let mut wl = Rng::stream(root, 1); // workload
    let mut sc = Rng::stream(root, 2); // schedule
    let mut kn = Rng::stream(root, 3); // knobs
    let corpus = corpus();

    // ---- knobs
    let nthreads = match profile {
        Profile::C19 => [1, 2, 2, 2, 3, 3, 4, 2, 3, 4, 5, 6][kn.usize_below(12)],
        Profile::C09 => [1, 1, 1, 2, 2, 3][kn.usize_below(6)],
    };
    // 1 in 48 C19 worlds is a crowd: 9-16 threads with short scripts on ONE shared object,
    // heavily preempted, so that more searches are in flight on it at once than any small
    // fixed number of per-object slots (2, 4, 8) a pooling scheme might provide
    let crowd = profile == Profile::C19 && kn.chance(1, 48);
    let nthreads = if crowd { 9 + kn.usize_below(8) } else { nthreads };
    // 1 in 400 worlds: one big haystack (4-48 KB) whose candidate matches sit at distances
    // of 2^k - j from each other: size thresholds in prefilter scans (windows, chunking,
    // narrow integers) are out of reach of the ordinary strata
    if kn.chance(1, 400) {
        return gen_big_world(&mut wl, &mut sc, &corpus, profile);
    }
    let fault_free = !crowd && kn.chance(1, 10); // separate stratum: no faults, serial schedule
    let strategy = if crowd {
        match kn.below(4) {
            0 => Strategy::Random { num: 1, den: 1 },
            1 => Strategy::Random { num: 1, den: 2 },
            2 => Strategy::Random { num: 1, den: 8 },
            _ => Strategy::Quantum { q: 1 },
        }
    } else if fault_free || nthreads == 1 {
        Strategy::Serial
    } else {
        match kn.below(10) {
            0 => Strategy::Random { num: 1, den: 64 },
            1 | 2 => Strategy::Random { num: 1, den: 8 },
            3 | 4 => Strategy::Random { num: 1, den: 2 },
            5 => Strategy::Random { num: 1, den: 1 },
            6 | 7 => Strategy::Pct { depth: 1 + kn.below(4) as u32 },
            8 => Strategy::Quantum { q: 1 + kn.below(12) },
            _ => Strategy::Random { num: 1, den: 16 },
        }
    };
    let fuel = [2_000u64, 5_000, 10_000, 20_000, 50_000][kn.usize_below(5)];
    let cancel_pct: u64 = if fault_free { 0 } else { [0, 3, 8, 15][kn.usize_below(4)] };
    let shared_pct: u64 = [100, 85, 60][kn.usize_below(3)];
    let pike_pct: u64 = [0, 15, 40][kn.usize_below(3)];
    let ascii_pct: u64 = [0, 15, 30][kn.usize_below(3)];
    let gen_pat_pct: u64 = [10, 30, 60][kn.usize_below(3)];

    // ---- regexes
    let nre = match profile {
        Profile::C19 => [1, 1, 2, 2, 3, 4][wl.usize_below(6)],
        Profile::C09 => [1, 1, 2, 3][wl.usize_below(4)],
    };
    let nre = if crowd { 1 } else { nre };
    let mut regexes: Vec<RegexSpec> = Vec::new();
    for _ in 0..nre {
        let input = if wl.chance(ascii_pct, 100) { InputKind::Ascii } else { InputKind::Utf8 };
        let exec = if wl.chance(pike_pct, 100) { ExecKind::Pike } else { ExecKind::Backtrack };
        let (flags, pattern) = if wl.chance(gen_pat_pct, 100) {
            gen_pattern(&mut wl, input == InputKind::Ascii)
        } else {
            let (f, p) = corpus[wl.usize_below(corpus.len())].clone();
            // occasionally add a flag to a corpus pattern
            let f = if wl.chance(1, 8) {
                let extra = ["i", "m", "s", "u"][wl.usize_below(4)];
                if f.contains(extra) || (extra == "u" && f.contains('v')) {
                    f
                } else {
                    format!("{}{}", f, extra)
                }
            } else {
                f
            };
            (f, p)
        };
        // sibling variants: the same pattern under other flags / another executor. Two objects
        // that differ only in mode are the bait for process-global or per-thread state that
        // is keyed too coarsely (by pattern text, by code point, by program shape).
        if !regexes.is_empty() && wl.chance(1, 3) {
            let src: RegexSpec = regexes[wl.usize_below(regexes.len())].clone();
            // ... or a near-twin of the pattern itself: same length, same head and tail, one
            // literal in the middle exchanged - the bait for caches keyed by a fingerprint of
            // the pattern text (length, prefix, suffix, hash of a part)
            if wl.chance(1, 3) {
                if let Some(twin) = near_twin(&src.pattern) {
                    regexes.push(RegexSpec { pattern: twin, flags: src.flags.clone(), exec: src.exec, input: src.input });
                    continue;
                }
            }
            let mut f: Vec<char> = src.flags.chars().collect();
            let toggle = ['i', 'u', 'm', 's', 'v', 'u', 'i', 'v'][wl.usize_below(8)];
            if let Some(p) = f.iter().position(|c| *c == toggle) {
                f.remove(p);
            } else {
                // u and v are mutually exclusive
                if toggle == 'u' {
                    f.retain(|c| *c != 'v');
                } else if toggle == 'v' {
                    f.retain(|c| *c != 'u');
                }
                f.push(toggle);
            }
            let exec2 = if wl.chance(1, 4) { if src.exec == ExecKind::Pike { ExecKind::Backtrack } else { ExecKind::Pike } } else { src.exec };
            regexes.push(RegexSpec { pattern: src.pattern, flags: f.into_iter().collect(), exec: exec2, input: src.input });
            continue;
        }
        regexes.push(RegexSpec { pattern, flags, exec, input });
    }
    let any_ascii = regexes.iter().any(|r| r.input == InputKind::Ascii);

    // ---- haystacks
    let pats: Vec<&str> = regexes.iter().map(|r| r.pattern.as_str()).collect();
    let mut alpha_u = alphabet(&pats, false);
    let alpha_a = alphabet(&pats, true);
    // each edge character twice: about as likely as one of the pattern's own letters
    let edge = edge_chars(&mut wl);
    alpha_u.extend(edge.iter());
    alpha_u.extend(edge.iter());
    let mut toks_u = literal_tokens(&pats, false);
    let mut toks_a = literal_tokens(&pats, true);
    if let Some(t) = semantic_token(&mut wl) {
        if t.is_ascii() {
            toks_a.push(t.clone());
        }
        toks_u.push(t);
    }
    // a pattern over a property of strings gets emoji sequences to chew on
    if pats.iter().any(|p| p.contains("Emoji")) {
        for _ in 0..2 {
            toks_u.push(SEMANTIC_TOKENS[9 + wl.usize_below(SEMANTIC_TOKENS.len() - 9)].to_string());
        }
    }
    let nhay = 1 + wl.usize_below(if profile == Profile::C19 { 4 } else { 6 });
    let mut hays: Vec<Hay> = Vec::new();
    for _ in 0..nhay {
        // ascii executors must only see ASCII text: if any regex of the world is ascii,
        // a share of the haystacks is ASCII-only and ascii regexes only use those
        let ascii_only = any_ascii && (hays.iter().all(|h| !h.text.is_ascii()) || wl.chance(1, 2));
        let a = if ascii_only { &alpha_a } else { &alpha_u };
        let toks = if ascii_only { &toks_a } else { &toks_u };
        // 1 in 16 haystacks is long (up to 160 chars): size thresholds in prefilter scans
        // (SIMD widths, windows, unrolled loops) are out of reach of 32-char haystacks
        let maxc = match wl.below(64) {
            0 => 600, // offsets and match counts beyond 255
            1..=4 => 160,
            _ => 32,
        };
        let text = if !toks.is_empty() && wl.chance(2, 5) { gen_hay_tokens(&mut wl, toks, a, maxc) } else { gen_hay(&mut wl, a, maxc) };
        // haystack 0 is always shared so that every thread sees at least one
        let owner = if !hays.is_empty() && wl.chance(1, 4) { Some(wl.below(nthreads as u64) as u32) } else { None };
        hays.push(Hay { text, owner });
    }
    if any_ascii && !hays.iter().any(|h| h.text.is_ascii() && h.owner.is_none()) {
        let text = gen_hay(&mut wl, &alpha_a, 32);
        hays.push(Hay { text, owner: None });
    }
    let ascii_hays: Vec<u32> = hays.iter().enumerate().filter(|(_, h)| h.text.is_ascii()).map(|(i, _)| i as u32).collect();

    // ---- scripts
    let max_ops: u64 = if crowd { 5 } else { 24 };
    let mut threads = Vec::new();
    for t in 0..nthreads {
        let nops = match profile {
            Profile::C19 => wl.range(2, max_ops),
            Profile::C09 => wl.range(3, max_ops),
        };
        let mut ops: Vec<Op> = Vec::new();
        let mut open: Vec<u32> = Vec::new(); // handle ids believed open
        let mut next_h = 0u32;
        let mut clones: Vec<u32> = Vec::new();
        // visible hays for this thread: shared ones and its own
        let vis: Vec<u32> = hays.iter().enumerate().filter(|(_, h)| h.owner.is_none() || h.owner == Some(t as u32)).map(|(i, _)| i as u32).collect();
        let vis = if vis.is_empty() { vec![0u32] } else { vis };
        let pick_re = |wl: &mut Rng, clones: &Vec<u32>| -> ReRef {
            if !clones.is_empty() && !wl.chance(shared_pct, 100) {
                ReRef::Clone(clones[wl.usize_below(clones.len())])
            } else {
                ReRef::Shared(wl.below(nre as u64) as u32)
            }
        };
        let pick_hay = |wl: &mut Rng, re: ReRef, regexes: &Vec<RegexSpec>, clone_src: &Vec<(u32, u32)>| -> u32 {
            let reidx = match re {
                ReRef::Shared(i) => i,
                ReRef::Clone(c) => clone_src.iter().rev().find(|(cc, _)| *cc == c).map(|x| x.1).unwrap_or(0),
            };
            let needs_ascii = regexes[reidx as usize].input == InputKind::Ascii;
            let cands: Vec<u32> = vis.iter().copied().filter(|h| !needs_ascii || ascii_hays.contains(h)).collect();
            if cands.is_empty() {
                // fall back to any ASCII haystack that is shared
                ascii_hays.iter().copied().find(|h| hays[*h as usize].owner.is_none()).expect("a shared ASCII haystack exists")
            } else {
                cands[wl.usize_below(cands.len())]
            }
        };
        let mut clone_src: Vec<(u32, u32)> = Vec::new();
        while (ops.len() as u64) < nops {
            let iter_bias = if profile == Profile::C09 { 78 } else { 55 };
            // the iterator family gets `iter_bias` percent; the rest is split with fixed weights
            // find 12, replace 8, nested 5, clone 6, rewrite 5, compile 6 (of 42)
            let r = if wl.chance(iter_bias, 100) { 0 } else { iter_bias + wl.below(46) };
            let mut op = if r < iter_bias {
                // iterator family
                if open.is_empty() || (open.len() < 3 && wl.chance(1, 4)) {
                    let re = pick_re(&mut wl, &clones);
                    let hay = pick_hay(&mut wl, re, &regexes, &clone_src);
                    let h = if !open.is_empty() && wl.chance(1, 6) {
                        open[wl.usize_below(open.len())] // reopen over an existing handle
                    } else {
                        next_h += 1;
                        next_h - 1
                    };
                    if !open.contains(&h) {
                        open.push(h);
                    }
                    OpKind::Open { h, re, hay, start: gen_start(&mut wl, profile) }
                } else {
                    let h = open[wl.usize_below(open.len())];
                    match wl.below(100) {
                        0..=63 => OpKind::Next { h },
                        64..=69 => {
                            // std's own Iterator methods on the concrete iterator type
                            let kind = wl.below(8) as u32;
                            if kind < 2 || (4..=6).contains(&kind) {
                                open.retain(|x| *x != h);
                            }
                            OpKind::Adaptor { h, kind, k: wl.below(4) as u32 }
                        }
                        70..=77 => OpKind::Drain { h },
                        78..=87 => OpKind::Resume { h },
                        88..=93 => {
                            open.retain(|x| *x != h);
                            OpKind::DropIter { h }
                        }
                        _ => {
                            // a burst of polls (repoll after None becomes likely)
                            OpKind::Next { h }
                        }
                    }
                }
            } else if r < iter_bias + 12 {
                let re = pick_re(&mut wl, &clones);
                let hay = pick_hay(&mut wl, re, &regexes, &clone_src);
                OpKind::Find { re, hay }
            } else if r < iter_bias + 20 {
                let re = pick_re(&mut wl, &clones);
                let hay = pick_hay(&mut wl, re, &regexes, &clone_src);
                OpKind::Replace { re, hay, tpl: TEMPLATES[wl.usize_below(TEMPLATES.len())].to_string(), all: wl.chance(2, 3) }
            } else if r < iter_bias + 25 {
                let re = ReRef::Shared(wl.below(nre as u64) as u32);
                let inner = pick_re(&mut wl, &clones);
                // nested uses the UTF-8 backtracker entry points on `re`; choose a haystack valid for both
                let hay = pick_hay(&mut wl, inner, &regexes, &clone_src);
                OpKind::ReplaceNested { re, hay, inner }
            } else if r < iter_bias + 31 {
                if clones.len() < 3 && wl.chance(2, 3) {
                    let c = clones.len() as u32;
                    clones.push(c);
                    let re = wl.below(nre as u64) as u32;
                    clone_src.push((c, re));
                    OpKind::CloneRegex { c, re }
                } else if !clones.is_empty() {
                    // dropping a clone that is still referenced by an open handle is fine (Arc)
                    let c = clones.remove(wl.usize_below(clones.len()));
                    OpKind::DropClone { c }
                } else {
                    OpKind::Find { re: ReRef::Shared(0), hay: vis[0] }
                }
            } else if r < iter_bias + 36 {
                // rewrite one of this thread's private haystacks
                let mine: Vec<u32> = hays.iter().enumerate().filter(|(_, h)| h.owner == Some(t as u32)).map(|(i, _)| i as u32).collect();
                if mine.is_empty() {
                    OpKind::Find { re: ReRef::Shared(0), hay: vis[0] }
                } else {
                    let hay = mine[wl.usize_below(mine.len())];
                    let ascii = hays[hay as usize].text.is_ascii();
                    let text = gen_rewrite(&mut wl, if ascii { &alpha_a } else { &alpha_u }, &hays[hay as usize].text);
                    OpKind::Rewrite { hay, text }
                }
            } else if r < iter_bias + 42 {
                let re = wl.below(nre as u64) as u32;
                let hay = pick_hay(&mut wl, ReRef::Shared(re), &regexes, &clone_src);
                OpKind::Compile { re, hay }
            } else if r < iter_bias + 45 {
                // panic in user code while the library's iterator is alive
                let re = pick_re(&mut wl, &clones);
                let hay = pick_hay(&mut wl, re, &regexes, &clone_src);
                OpKind::ReplacePanic { re, hay, k: 1 + wl.below(3) as u32 }
            } else {
                // a long history on one object: the same find repeated many times
                let re = pick_re(&mut wl, &clones);
                let hay = pick_hay(&mut wl, re, &regexes, &clone_src);
                OpKind::Burst { re, hay, n: [70, 300, 1500][wl.usize_below(3)] }
            };
            // nested replace on an ascii-kind outer regex would feed non-ASCII to nothing: fine,
            // outer always runs the UTF-8 backtracker; but keep ascii-kind *inner* on ASCII hays (done above)
            if let OpKind::ReplaceNested { re: ReRef::Shared(i), .. } = &op {
                let _ = i;
            }
            let searching = matches!(op, OpKind::Next { .. } | OpKind::Drain { .. } | OpKind::Adaptor { .. } | OpKind::Find { .. } | OpKind::Replace { .. } | OpKind::ReplaceNested { .. } | OpKind::Compile { .. } | OpKind::CloneRegex { .. } | OpKind::Burst { .. } | OpKind::ReplacePanic { .. });
            let cancel_at = if searching && cancel_pct > 0 && wl.chance(cancel_pct, 100) {
                match wl.below(4) {
                    0 => 1 + wl.below(4),
                    1 => 1 + wl.below(30),
                    _ => 1 + wl.below(300),
                }
            } else {
                0
            };
            if let OpKind::Next { h } = op {
                // bursts
                if wl.chance(1, 5) {
                    let k = wl.range(1, 3);
                    for _ in 0..k {
                        ops.push(Op { kind: OpKind::Next { h }, cancel_at: 0 });
                    }
                }
            }
            if let OpKind::Open { .. } = op {
                // keep as is
            }
            let _ = &mut op;
            ops.push(Op { kind: op, cancel_at });
        }
        ops.truncate(max_ops as usize + 4);
        threads.push(ops);
    }

    let pristine = kn.chance(1, 24);
    let knobs = Knobs { fuel, strategy, sched_seed: sc.next_u64() >> 1, max_switches: 400, pristine };
    World { regexes, hays, threads, knobs }
}


fn gen_big_world(wl: &mut Rng, sc: &mut Rng, corpus: &[(String, String)], profile: Profile) -> World {
    // a pattern with a literal run (so that candidates can be placed), else any pattern
    let mut pick = corpus[wl.usize_below(corpus.len())].clone();
    for _ in 0..6 {
        if !literal_tokens(&[pick.1.as_str()], false).is_empty() {
            break;
        }
        pick = corpus[wl.usize_below(corpus.len())].clone();
    }
    let (flags, pattern) = pick;
    let toks0 = literal_tokens(&[pattern.as_str()], false);
    let toks: Vec<String> = if toks0.is_empty() { vec!["ab".into(), "12".into()] } else { toks0 };
    let fillers = ['x', ' ', '.', '-', 'z', '\n', 'é'];
    let fill = fillers[wl.usize_below(fillers.len())];
    let target = [4_500usize, 9_000, 20_000, 48_000][wl.usize_below(4)];
    let mut text = String::with_capacity(target + 64);
    while text.len() < target {
        let t = &toks[wl.usize_below(toks.len())];
        // sometimes only a prefix of the token: a near miss
        if wl.chance(1, 6) {
            let cs: Vec<char> = t.chars().collect();
            text.extend(cs[..1 + wl.usize_below(cs.len())].iter());
        } else {
            text.push_str(t);
        }
        let k = wl.range(3, 14);
        let gap = (1usize << k).saturating_sub(wl.below(t.len() as u64 + 3) as usize);
        for _ in 0..gap {
            text.push(fill);
        }
    }
    let exec = if wl.chance(1, 5) { ExecKind::Pike } else { ExecKind::Backtrack };
    let regexes = vec![RegexSpec { pattern, flags, exec, input: InputKind::Utf8 }];
    let hays = vec![Hay { text, owner: None }];
    let mut ops = vec![Op { kind: OpKind::Open { h: 0, re: ReRef::Shared(0), hay: 0, start: if wl.chance(1, 3) { Start::Boundary(wl.below(4000) as u32) } else { Start::Zero } }, cancel_at: 0 }];
    ops.push(Op { kind: OpKind::Drain { h: 0 }, cancel_at: 0 });
    if wl.chance(1, 2) {
        ops.push(Op { kind: OpKind::Find { re: ReRef::Shared(0), hay: 0 }, cancel_at: 0 });
    }
    let _ = profile;
    let knobs = Knobs { fuel: 4_000_000, strategy: Strategy::Serial, sched_seed: sc.next_u64() >> 1, max_switches: 400, pristine: false };
    World { regexes, hays, threads: vec![ops], knobs }
}
