//! Executing a world on the real regress code: three passes, op execution,
//! the C09 iterator model evaluated online, the C19 three-pass comparison.

use crate::rng::Fnv;
use crate::sched::{self, with_ctx, Ctx, SchedConfig, SchedStats, Scheduler, Segment, SimCancel, Strategy, NO_OBJ, NSITES};
use crate::json::J;
use crate::world::*;
use regress::{Match, Regex};
use std::cell::RefCell;
use std::panic::{catch_unwind, AssertUnwindSafe};
use std::sync::{Arc, Mutex};

// ---------------------------------------------------------------- panic capture

thread_local! {
    static IN_OP: std::cell::Cell<bool> = const { std::cell::Cell::new(false) };
    static LAST_PANIC: RefCell<Option<String>> = const { RefCell::new(None) };
}

pub fn install_panic_hook() {
    static ONCE: std::sync::Once = std::sync::Once::new();
    ONCE.call_once(|| {
        let default = std::panic::take_hook();
        std::panic::set_hook(Box::new(move |info| {
            if IN_OP.with(|c| c.get()) {
                let msg = if let Some(s) = info.payload().downcast_ref::<&str>() {
                    s.to_string()
                } else if let Some(s) = info.payload().downcast_ref::<String>() {
                    s.clone()
                } else {
                    "<non-string panic>".to_string()
                };
                let loc = info.location().map(|l| format!(" @ {}:{}", l.file().rsplit('/').next().unwrap_or(""), l.line())).unwrap_or_default();
                LAST_PANIC.with(|p| *p.borrow_mut() = Some(format!("{}{}", msg, loc)));
            } else {
                default(info);
            }
        }));
    });
}

// ---------------------------------------------------------------- haystack buffers

/// A heap buffer whose content can be overwritten in place (same address, same
/// length, new content). Aliasing discipline is enforced by the script rules:
/// a rewritable buffer is private to one thread and is only rewritten while that
/// thread holds no iterator on it.
pub struct HayBuf {
    ptr: *mut u8,
    len: usize,
}
unsafe impl Send for HayBuf {}
unsafe impl Sync for HayBuf {}

impl HayBuf {
    pub fn new(s: &str) -> HayBuf {
        let mut v = s.as_bytes().to_vec().into_boxed_slice();
        let ptr = v.as_mut_ptr();
        let len = v.len();
        std::mem::forget(v);
        HayBuf { ptr, len }
    }
    pub fn text(&self) -> &'static str {
        // SAFETY: content is always valid UTF-8 (only whole &str values are copied in);
        // the buffer outlives every user (dropped after all passes).
        unsafe { std::str::from_utf8_unchecked(std::slice::from_raw_parts(self.ptr, self.len)) }
    }
    pub fn overwrite(&self, s: &str) -> bool {
        if s.len() != self.len {
            return false;
        }
        unsafe { std::ptr::copy_nonoverlapping(s.as_ptr(), self.ptr, self.len) };
        true
    }
}

impl Drop for HayBuf {
    fn drop(&mut self) {
        unsafe { drop(Box::from_raw(std::ptr::slice_from_raw_parts_mut(self.ptr, self.len))) };
    }
}

// ---------------------------------------------------------------- formatting outcomes

pub fn fmt_match(m: &Match) -> String {
    use std::fmt::Write;
    let mut s = String::with_capacity(32);
    let _ = write!(s, "Some({}..{};[", m.start(), m.end());
    for (i, c) in m.captures.iter().enumerate() {
        if i > 0 {
            s.push(',');
        }
        match c {
            Some(r) => {
                let _ = write!(s, "{}..{}", r.start, r.end);
            }
            None => s.push('-'),
        }
    }
    s.push(']');
    // named_groups() is library code running on a value the library produced: if that value
    // is inconsistent (capture list and name table of different lengths) the accessor
    // panics. That is an observation about the value, not a failure of the harness.
    let named = catch_unwind(AssertUnwindSafe(|| {
        let mut t = String::new();
        let mut any = false;
        for (name, r) in m.named_groups() {
            if !any {
                t.push_str(";n=");
                any = true;
            } else {
                t.push(',');
            }
            match r {
                Some(r) => {
                    let _ = write!(t, "{}={}..{}", name, r.start, r.end);
                }
                None => {
                    let _ = write!(t, "{}=-", name);
                }
            }
        }
        t
    }));
    match named {
        Ok(t) => s.push_str(&t),
        Err(_) => s.push_str(";n=<named_groups() panicked>"),
    }
    s.push(')');
    s
}

/// Compile through one of the public constructors; which one is a pure function of the
/// spec, so every pass (and the pristine process) compiles a given spec the same way.
fn compile(spec: &RegexSpec) -> Result<Regex, String> {
    let mut h = Fnv::default();
    h.str(&spec.pattern);
    h.str(&spec.flags);
    let r = match (h.0 >> 7) % 4 {
        1 => Regex::from_unicode(spec.pattern.chars().map(|c| c as u32), spec.flags.as_str()),
        2 if spec.flags.is_empty() => Regex::new(&spec.pattern),
        3 if spec.flags.is_empty() => spec.pattern.parse::<Regex>(),
        _ => Regex::with_flags(&spec.pattern, spec.flags.as_str()),
    };
    r.map_err(|e| e.to_string())
}

/// Object-safe view of a concrete match iterator that keeps the *concrete* type's own
/// Iterator methods reachable (count/last/nth/size_hint may be overridden by the library).
pub trait MatchIter {
    fn next(&mut self) -> Option<Match>;
    fn size_hint_(&self) -> (usize, Option<usize>);
    fn nth_(&mut self, k: usize) -> Option<Match>;
    fn count_rest(self: Box<Self>) -> usize;
    fn last_rest(self: Box<Self>) -> Option<Match>;
    fn fold_rest(self: Box<Self>) -> (usize, Option<Match>);
    fn for_each_rest(self: Box<Self>) -> (usize, Option<Match>);
    fn collect_rest(self: Box<Self>) -> (usize, Option<Match>);
    fn find_nonempty(&mut self) -> Option<Match>;
}

impl<I: Iterator<Item = Match>> MatchIter for I {
    fn next(&mut self) -> Option<Match> {
        Iterator::next(self)
    }
    fn size_hint_(&self) -> (usize, Option<usize>) {
        Iterator::size_hint(self)
    }
    fn nth_(&mut self, k: usize) -> Option<Match> {
        Iterator::nth(self, k)
    }
    fn count_rest(self: Box<Self>) -> usize {
        Iterator::count(*self)
    }
    fn last_rest(self: Box<Self>) -> Option<Match> {
        Iterator::last(*self)
    }
    fn fold_rest(self: Box<Self>) -> (usize, Option<Match>) {
        Iterator::fold(*self, (0usize, None), |(n, _), m| (n + 1, Some(m)))
    }
    fn for_each_rest(self: Box<Self>) -> (usize, Option<Match>) {
        let mut n = 0usize;
        let mut last = None;
        Iterator::for_each(*self, |m| {
            n += 1;
            last = Some(m);
        });
        (n, last)
    }
    fn collect_rest(self: Box<Self>) -> (usize, Option<Match>) {
        let mut v: Vec<Match> = Iterator::collect(*self);
        (v.len(), v.pop())
    }
    fn find_nonempty(&mut self) -> Option<Match> {
        Iterator::find(self, |m| m.end() > m.start())
    }
}

type DynIter = Box<dyn MatchIter>;

/// Open an iterator by executor/input kind. Lifetimes are erased: the caller keeps
/// the Regex (Arc) and the haystack buffer alive for as long as the iterator.
fn open_iter(re: &Regex, spec: &RegexSpec, text: &'static str, start: usize) -> DynIter {
    use regress::backends as rbe;
    let re: &'static Regex = unsafe { &*(re as *const Regex) };
    match (spec.exec, spec.input) {
        (ExecKind::Backtrack, InputKind::Utf8) => Box::new(re.find_from(text, start)),
        (ExecKind::Backtrack, InputKind::Ascii) => Box::new(re.find_from_ascii(text, start)),
        (ExecKind::Pike, InputKind::Utf8) => Box::new(rbe::find::<rbe::PikeVMExecutor>(re, text, start)),
        (ExecKind::Pike, InputKind::Ascii) => Box::new(rbe::find_ascii::<rbe::PikeVMExecutor>(re, text, start)),
    }
}

// ---------------------------------------------------------------- reference model (C09)

/// Run a blocking call that belongs to the harness (pristine-oracle pipe) so that the
/// scheduler's stall detector does not mistake it for a lock of the code under test.
fn harness_blocking<R>(f: impl FnOnce() -> R) -> R {
    let c = sched::cur_ctx();
    let s = c.and_then(|c| if c.sched.is_null() { None } else { Some((unsafe { &*c.sched }, c.tid)) });
    if let Some((s, tid)) = s {
        s.set_harness_wait(tid, true);
    }
    let r = f();
    if let Some((s, tid)) = s {
        s.set_harness_wait(tid, false);
    }
    r
}

/// Scope guard for the simulation knob of the verif-sim build that makes the backtracking
/// executor ignore its start predicate (reset on unwind as well).
pub struct NoPrefilter(bool);
impl NoPrefilter {
    pub fn set(on: bool) -> NoPrefilter {
        NoPrefilter(regress::simhook::set_no_prefilter(on))
    }
}
impl Drop for NoPrefilter {
    fn drop(&mut self) {
        regress::simhook::set_no_prefilter(self.0);
    }
}

/// The position part of a formatted first-match answer ("Some(3..5" or "None"). The
/// metamorphic relations on the first-match function (cursor shift, haystack extension,
/// prefilter-free twin, pinned regex) exist to validate WHERE the first match is - that is
/// what drives the cursor of an iteration. They compare positions only: a difference in
/// capture values alone is a matching-semantics matter (C01/C02), not an iteration one, and
/// the pinned tree has such a defect (DESIGN 9.9).
pub fn pos_only(s: &str) -> &str {
    s.split(';').next().unwrap_or(s)
}

/// A pattern whose matches cannot depend on what follows them: no `$`, no look-ahead, no
/// word-boundary assertion (checked syntactically and conservatively: an escaped `\$` also
/// counts). Look-behind and `^` only look backwards.
pub fn end_insensitive(pattern: &str) -> bool {
    !(pattern.contains('$') || pattern.contains("(?=") || pattern.contains("(?!") || pattern.contains("\\b") || pattern.contains("\\B"))
}

/// Run `f` in model mode: hook counts only (own fuel), no scheduling, no injected
/// cancel, no site statistics. Err(None) = ran out of fuel, Err(Some(msg)) = panic.
pub fn model_mode<R>(fuel: u64, f: impl FnOnce() -> R) -> (Result<R, Option<String>>, u64) {
    let ctx = sched::cur_ctx();
    let (saved_armed, saved_model, saved_steps, saved_fuel) = match &ctx {
        Some(c) => (c.armed.get(), c.model.get(), c.model_steps.get(), c.model_fuel.get()),
        None => (false, false, 0, u64::MAX),
    };
    if let Some(c) = &ctx {
        c.armed.set(false);
        c.model.set(true);
        c.model_steps.set(0);
        c.model_fuel.set(fuel);
    }
    let was_in_op = IN_OP.with(|c| c.replace(true));
    let r = catch_unwind(AssertUnwindSafe(f));
    IN_OP.with(|c| c.set(was_in_op));
    let mut steps = 0;
    if let Some(c) = &ctx {
        steps = c.model_steps.get();
        c.model.set(saved_model);
        c.armed.set(saved_armed);
        c.model_steps.set(saved_steps + steps);
        c.model_fuel.set(saved_fuel);
    }
    match r {
        Ok(v) => (Ok(v), steps),
        Err(p) => {
            if p.is::<SimCancel>() {
                (Err(None), steps)
            } else {
                let msg = LAST_PANIC.with(|p| p.borrow_mut().take()).unwrap_or_else(|| "?".into());
                (Err(Some(msg)), steps)
            }
        }
    }
}

#[derive(Clone, Debug)]
pub struct ModelAns {
    /// None = unknown (model ran out of fuel)
    pub outcome: Option<String>,
    pub range: Option<(usize, usize)>,
}

#[derive(Default, Clone, Debug)]
pub struct ModelStats {
    pub extension_checks: u64,
    pub extension_informative: u64,
    pub shift_checks: u64,
    pub twin_checks: u64,
    pub twin_knob_honoured: u64,
    pub shift_informative: u64,
    pub pinned_queries: u64,
    pub pinned_unknown: u64,
    pub pristine_queries: u64,
    pub pristine_unknown: u64,
    pub calls: u64,
    pub memo_hits: u64,
    pub out_of_fuel: u64,
    pub steps: u64,
}

pub struct Model<'w> {
    world: &'w World,
    memo: Mutex<crate::rng::DetMap<(u32, String, usize), ModelAns>>,
    pub stats: Mutex<ModelStats>,
    /// (description, pristine answer, in-process answer)
    pub pristine_viols: Mutex<Vec<(String, String, String)>>,
    /// (description, position-pinned answer, find_from answer)
    pub pinned_viols: Mutex<Vec<(String, String, String)>>,
    pinned_budget: Mutex<u32>,
    /// (description, implied answer, observed answer)
    pub shift_viols: Mutex<Vec<(String, String, String)>>,
}

impl<'w> Model<'w> {
    pub fn new(world: &'w World) -> Self {
        Model { world, memo: Mutex::new(Default::default()), stats: Mutex::new(ModelStats::default()), pristine_viols: Mutex::new(Vec::new()), pinned_viols: Mutex::new(Vec::new()), pinned_budget: Mutex::new(8), shift_viols: Mutex::new(Vec::new()) }
    }

    /// FIRST(regex, text, cursor): a brand-new search on a freshly compiled,
    /// private Regex, in count-only mode with ten times the op fuel.
    pub fn first(&self, reidx: u32, text: &str, cursor: usize) -> ModelAns {
        let key = (reidx, text.to_string(), cursor);
        if let Some(a) = self.memo.lock().unwrap().get(&key) {
            self.stats.lock().unwrap().memo_hits += 1;
            return a.clone();
        }
        let spec = &self.world.regexes[reidx as usize];
        let fuel = self.world.knobs.fuel.saturating_mul(10);
        let text_static: &'static str = unsafe { &*(text as *const str) };
        let (r, steps) = model_mode(fuel, || {
            let re = match compile(spec) {
                Ok(re) => re,
                Err(e) => return Err(e),
            };
            let mut it = open_iter(&re, spec, text_static, cursor);
            let m = it.next();
            drop(it);
            Ok(m)
        });
        let ans = match r {
            Ok(Ok(Some(m))) => ModelAns { outcome: Some(fmt_match(&m)), range: Some((m.start(), m.end())) },
            Ok(Ok(None)) => ModelAns { outcome: Some("None".into()), range: None },
            Ok(Err(e)) => ModelAns { outcome: Some(format!("NoRegex({})", e)), range: None },
            Err(None) => {
                self.stats.lock().unwrap().out_of_fuel += 1;
                ModelAns { outcome: None, range: None }
            }
            Err(Some(msg)) => ModelAns { outcome: Some(format!("Panicked({})", msg)), range: None },
        };
        {
            let mut st = self.stats.lock().unwrap();
            st.calls += 1;
            st.steps += steps;
        }
        // Cursor-shift consistency (every world): if the first match from an earlier cursor c'
        // starts at or after c, it is also the first match from c (and "none from c'" implies
        // "none from c"). Both sides are the engine, but the scan windows, prefilter resume
        // points and look-behind context sit differently relative to the cursor, so a defect
        // that depends on where the cursor is cannot cancel out.
        if cursor <= text.len() && cursor > 0 {
            if let Some(at_c) = &ans.outcome {
                if !at_c.starts_with("NoRegex") && !at_c.starts_with("Panicked") {
                    let mut h = Fnv::default();
                    h.str(text);
                    h.u64(cursor as u64);
                    let ascii = spec.input == InputKind::Ascii;
                    // an earlier cursor: 0, or 1..8 characters back
                    let back = (h.0 % 9) as usize;
                    let mut c2 = if back == 0 { 0 } else { cursor.saturating_sub(back) };
                    if !ascii {
                        while c2 > 0 && !text.is_char_boundary(c2) {
                            c2 -= 1;
                        }
                    }
                    if c2 < cursor {
                        let (r2, st2) = model_mode(fuel, || {
                            let re = compile(spec).ok()?;
                            let mut it = open_iter(&re, spec, text_static, c2);
                            let m = it.next();
                            drop(it);
                            Some(m)
                        });
                        let mut stg = self.stats.lock().unwrap();
                        stg.shift_checks += 1;
                        stg.steps += st2;
                        drop(stg);
                        if let Ok(Some(m2)) = r2 {
                            let implied: Option<String> = match &m2 {
                                None => Some("None".to_string()),
                                Some(m) if m.start() >= cursor => Some(fmt_match(m)),
                                Some(_) => None, // an earlier match starts before the cursor: no information
                            };
                            if let Some(imp) = implied {
                                self.stats.lock().unwrap().shift_informative += 1;
                                if pos_only(&imp) != pos_only(at_c) {
                                    self.shift_viols.lock().unwrap().push((
                                        format!("/{}/{} ({:?},{:?}) on {:?}: first match from {} is {} which starts at or after {}", spec.pattern, spec.flags, spec.exec, spec.input, text, c2, imp, cursor),
                                        imp,
                                        format!("{} (first match from {})", at_c, cursor),
                                    ));
                                }
                            }
                        }
                    }
                }
            }
        }
        // ... and forwards: if the first match from c starts at or after a later cursor c'' (or
        // there is none), the first match from c'' is the same (none).
        if cursor < text.len() {
            if let Some(at_c) = &ans.outcome {
                if !at_c.starts_with("NoRegex") && !at_c.starts_with("Panicked") {
                    let ascii = spec.input == InputKind::Ascii;
                    let limit = match ans.range {
                        Some((ms, _)) => ms,
                        None => text.len(),
                    };
                    if limit > cursor {
                        let mut h = Fnv::default();
                        h.str(text);
                        h.u64(cursor as u64 ^ 0x55);
                        // the match start itself, or a point in between
                        let mut c2 = if h.0 % 3 == 0 { limit } else { cursor + 1 + (h.0 as usize % (limit - cursor)) };
                        if !ascii {
                            while c2 < text.len() && !text.is_char_boundary(c2) {
                                c2 += 1;
                            }
                        }
                        if c2 > cursor && c2 <= limit {
                            let (r2, st2) = model_mode(fuel, || {
                                let re = compile(spec).ok()?;
                                let mut it = open_iter(&re, spec, text_static, c2);
                                let m = it.next();
                                drop(it);
                                Some(m)
                            });
                            let mut stg = self.stats.lock().unwrap();
                            stg.shift_checks += 1;
                            stg.shift_informative += 1;
                            stg.steps += st2;
                            drop(stg);
                            if let Ok(Some(m2)) = r2 {
                                let got = match &m2 {
                                    None => "None".to_string(),
                                    Some(m) => fmt_match(m),
                                };
                                if pos_only(&got) != pos_only(at_c) {
                                    self.shift_viols.lock().unwrap().push((
                                        format!("/{}/{} ({:?},{:?}) on {:?}: first match from {} is {}, which starts at or after {} (or is none)", spec.pattern, spec.flags, spec.exec, spec.input, text, cursor, at_c, c2),
                                        at_c.clone(),
                                        format!("{} (first match from {})", got, c2),
                                    ));
                                }
                            }
                        }
                    }
                }
            }
        }
        // Haystack-extension consistency (every world, end-insensitive patterns only): for a
        // pattern without `$`, look-ahead or word-boundary assertions a match never depends on
        // what follows it, so the first match from c in T + pad, if it lies inside T, is the
        // first match from c in T, and "none in T + pad" implies "none in T". The mirror image
        // of the cursor-shift check: it moves the END of the haystack relative to the match.
        if cursor <= text.len() && end_insensitive(&spec.pattern) {
            if let Some(at_c) = &ans.outcome {
                if !at_c.starts_with("NoRegex") && !at_c.starts_with("Panicked") {
                    let pad = if spec.input == InputKind::Ascii { "~~~~" } else { "\u{e000}~\u{e000}~" };
                    let ext: String = format!("{}{}", text, pad);
                    let ext_static: &'static str = unsafe { &*(ext.as_str() as *const str) };
                    let (r2, st2) = model_mode(fuel, || {
                        let re = compile(spec).ok()?;
                        let mut it = open_iter(&re, spec, ext_static, cursor);
                        let m = it.next();
                        drop(it);
                        Some(m)
                    });
                    {
                        let mut stg = self.stats.lock().unwrap();
                        stg.extension_checks += 1;
                        stg.steps += st2;
                    }
                    if let Ok(Some(m2)) = r2 {
                        let implied: Option<String> = match &m2 {
                            None => Some("None".to_string()),
                            Some(m) if m.end() <= text.len() && m.captures.iter().flatten().all(|r| r.end <= text.len()) => Some(fmt_match(m)),
                            Some(_) => None, // the match reaches into the padding: no information
                        };
                        if let Some(imp) = implied {
                            self.stats.lock().unwrap().extension_informative += 1;
                            if pos_only(&imp) != pos_only(at_c) {
                                self.shift_viols.lock().unwrap().push((
                                    format!("/{}/{} ({:?},{:?}) on {:?} from {}: with {} characters appended the first match is {}, which lies inside the original text (or is none)", spec.pattern, spec.flags, spec.exec, spec.input, text, cursor, pad.chars().count(), imp),
                                    imp,
                                    format!("{} (first match from {} in the original text) [haystack-extension]", at_c, cursor),
                                ));
                            }
                        }
                    }
                }
            }
        }
        // Prefilter-free twin (every world, half of the uncached queries): `(?:P|(?!))` denotes
        // the same matches with the same captures as P, but the never-matching alternative
        // defeats every start predicate derived from P (first-byte sets, literal prefixes,
        // anchoring shortcuts), so each offset is attempted by the matcher itself. A start
        // predicate that skips offsets where P does match is wrong identically in the
        // iterator, in a fresh search, under cursor shifts, under extension and in a pinned
        // regex that inherits P's predicate - but not here.
        if cursor <= text.len() {
            if let Some(at_c) = &ans.outcome {
                let mut hsel = Fnv::default();
                hsel.str(text);
                hsel.u64(cursor as u64 ^ 0x7717);
                if hsel.0 % 2 == 0 && !at_c.starts_with("NoRegex") && !at_c.starts_with("Panicked") {
                    // backtracker: the same regex with the simulation knob "skip the start-position
                    // prefilter" set (a hook of the verif-sim build: every offset is attempted, whatever
                    // predicate was derived - also from the twin pattern, seeded C09-Q); PikeVM (no such
                    // knob, and no prefilter on the pinned tree): the twin pattern
                    // (the knob lives in the executor's own scan loop; a change that routes a
                    // pattern around that loop would make it a no-op, so the pattern twin keeps
                    // half of the backtracker's queries)
                    let knob = spec.exec == ExecKind::Backtrack && (hsel.0 >> 1) % 2 == 0;
                    let twin = if knob { spec.clone() } else { RegexSpec { pattern: format!("(?:{}|(?!))", spec.pattern), flags: spec.flags.clone(), exec: spec.exec, input: spec.input } };
                    let (r2, st2) = model_mode(fuel, || {
                        let re = compile(&twin).ok()?;
                        let _k = NoPrefilter::set(knob);
                        let mut it = open_iter(&re, &twin, text_static, cursor);
                        let m = it.next();
                        drop(it);
                        Some(m)
                    });
                    {
                        let mut stg = self.stats.lock().unwrap();
                        stg.twin_checks += 1;
                        stg.steps += st2;
                        if knob && sched::KNOB_HITS.with(|k| k.replace(0)) > 0 {
                            stg.twin_knob_honoured += 1;
                        }
                    }
                    if let Ok(Some(m2)) = r2 {
                        let got = match &m2 {
                            None => "None".to_string(),
                            Some(m) => fmt_match(m),
                        };
                        if pos_only(&got) != pos_only(at_c) {
                            self.shift_viols.lock().unwrap().push((
                                format!("/{}/{} ({:?},{:?}) on {:?} from {}: the prefilter-free twin /(?:P|(?!))/ finds {}", spec.pattern, spec.flags, spec.exec, spec.input, text, cursor, got),
                                got,
                                format!("{} (first match from {}) [prefilter-free-twin]", at_c, cursor),
                            ));
                        }
                    }
                }
            }
        }
        // Independent first-match oracle (sampled worlds): see first_pinned.
        if self.world.knobs.pristine && cursor <= text.len() && text.chars().count() <= 24 {
            if let Some(inproc) = &ans.outcome {
                let go = {
                    let mut b = self.pinned_budget.lock().unwrap();
                    if *b > 0 {
                        *b -= 1;
                        true
                    } else {
                        false
                    }
                };
                if go && !inproc.starts_with("NoRegex") && !inproc.starts_with("Panicked") {
                    self.stats.lock().unwrap().pinned_queries += 1;
                    match self.first_pinned(reidx, text, cursor) {
                        Some(pinned) => {
                            if pos_only(&pinned) != pos_only(inproc) {
                                self.pinned_viols.lock().unwrap().push((format!("/{}/{} ({:?},{:?}) on {:?} from {}", spec.pattern, spec.flags, spec.exec, spec.input, text, cursor), pinned, inproc.clone()));
                            }
                        }
                        None => self.stats.lock().unwrap().pinned_unknown += 1,
                    }
                }
            }
        }
        // Pristine-process oracle (sampled worlds): the same one-shot search in a process
        // with no history at all must give the same answer as here.
        if self.world.knobs.pristine && crate::pristine::available() {
            if let Some(inproc) = &ans.outcome {
                let req = J::obj()
                    .set("k", J::s("first"))
                    .set("pattern", J::s(&spec.pattern))
                    .set("flags", J::s(&spec.flags))
                    .set("exec", J::s(if spec.exec == ExecKind::Pike { "pikevm" } else { "backtrack" }))
                    .set("input", J::s(if spec.input == InputKind::Ascii { "ascii" } else { "utf8" }))
                    .set("text", J::s(text))
                    .set("cursor", J::u(cursor as u64))
                    .set("fuel", J::u(fuel));
                self.stats.lock().unwrap().pristine_queries += 1;
                match harness_blocking(|| crate::pristine::query(&req.to_string())) {
                    Some(p) if !p.starts_with('?') => {
                        if p != *inproc {
                            self.pristine_viols.lock().unwrap().push((format!("first match of /{}/{} ({:?},{:?}) on {:?} from {}", spec.pattern, spec.flags, spec.exec, spec.input, text, cursor), p, inproc.clone()));
                        }
                    }
                    _ => self.stats.lock().unwrap().pristine_unknown += 1,
                }
            }
        }
        self.memo.lock().unwrap().insert(key, ans.clone());
        ans
    }

    /// "First match at or after the cursor" computed WITHOUT ever passing a non-zero start to
    /// the engine: for p = cursor, cursor+1 char, ... the derived regex
    /// `(?<=(?<![^])[^]{n})(?:P)` (n = characters before p) is searched from offset 0; its
    /// look-behind pins the match start at p while the whole text stays visible to P. The
    /// first p that matches gives the answer. Independent of the engine's handling of `start`
    /// and of the prefilter scan from the cursor, which is what C09's "text before start stays
    /// visible" clause is about. None = unknown (fuel, derived pattern does not compile).
    pub fn first_pinned(&self, reidx: u32, text: &str, cursor: usize) -> Option<String> {
        let spec = &self.world.regexes[reidx as usize];
        let ascii = spec.input == InputKind::Ascii;
        let fuel = self.world.knobs.fuel.saturating_mul(40);
        let copy: String = text.to_string();
        let text_static: &'static str = unsafe { &*(copy.as_str() as *const str) };
        let mut positions: Vec<usize> = if ascii { (cursor..=copy.len()).collect() } else { copy.char_indices().map(|(i, _)| i).chain(std::iter::once(copy.len())).filter(|i| *i >= cursor).collect() };
        positions.dedup();
        let (r, _) = model_mode(fuel, || {
            for p in positions {
                let n = if ascii { p } else { copy[..p].chars().count() };
                let derived = RegexSpec { pattern: format!("(?<=(?<![^])[^]{{{}}})(?:{}|(?!))", n, spec.pattern), flags: spec.flags.clone(), exec: spec.exec, input: spec.input };
                let re = match compile(&derived) {
                    Ok(re) => re,
                    Err(_) => return None,
                };
                let _k = NoPrefilter::set(spec.exec == ExecKind::Backtrack);
                let mut it = open_iter(&re, &derived, text_static, 0);
                let m = it.next();
                drop(it);
                if let Some(m) = m {
                    if m.start() != p {
                        return None; // the pin did not hold: do not trust this oracle here
                    }
                    return Some(fmt_match(&m));
                }
            }
            Some("None".to_string())
        });
        match r {
            Ok(v) => v,
            Err(_) => None,
        }
    }

    /// The k-th (1-based) result of a brand-new iterator opened at `start` on a private
    /// copy of the text with a freshly compiled Regex. Used only to attribute a mismatch:
    /// if a fresh iterator agrees with the unfold of FIRST but the observed iterator does
    /// not, the observed result depended on history or buffer identity (C19), not on the
    /// iteration rule (C09).
    pub fn fresh_kth(&self, reidx: u32, text: &str, start: usize, k: u32) -> Option<String> {
        let spec = &self.world.regexes[reidx as usize];
        let fuel = self.world.knobs.fuel.saturating_mul(10).saturating_mul(k.max(1) as u64);
        let copy: String = text.to_string();
        let text_static: &'static str = unsafe { &*(copy.as_str() as *const str) };
        let (r, _) = model_mode(fuel, || {
            let re = compile(spec).ok()?;
            let mut it = open_iter(&re, spec, text_static, start);
            let mut last = None;
            for _ in 0..k {
                last = Some(it.next());
            }
            drop(it);
            last
        });
        match r {
            Ok(Some(Some(m))) => Some(fmt_match(&m)),
            Ok(Some(None)) => Some("None".into()),
            _ => None,
        }
    }
}

pub const F_EMPTY: u32 = 1;
pub const F_REPOLL: u32 = 2;
pub const F_RESUME: u32 = 4;
pub const F_SIBLING: u32 = 8;
pub const F_EMPTY_MULTIBYTE: u32 = 16;
pub const F_EMPTY_AT_END: u32 = 32;
pub const F_START_LEN: u32 = 64;
pub const F_START_BEYOND: u32 = 128;
pub const F_START_MID: u32 = 256;
pub const F_ADAPTOR: u32 = 512;

/// Executable reference model of lastIndex iteration for one iterator.
#[derive(Clone, Debug)]
pub struct IterModel {
    pub reidx: u32,
    pub hay: u32,
    pub ascii: bool,
    pub text: String,
    pub start: usize,
    /// where the next search starts; None = beyond the end
    pub cursor: Option<usize>,
    pub exhausted: bool,
    pub prev: Option<(usize, usize)>,
    pub count: u64,
    pub nexts: u32,
    pub features: u32,
    pub hist: Fnv,
}

#[derive(Clone, Debug)]
pub struct C09Viol {
    pub property: &'static str,
    pub pass: u8,
    pub thread: usize,
    pub op: usize,
    pub clause: &'static str,
    pub expected: String,
    pub observed: String,
}

pub enum NextOut {
    Some(Match),
    None,
    Panicked(String),
}

impl IterModel {
    /// Attribute a "next!=first(cursor)" mismatch (see Model::fresh_kth).
    pub fn attribute(&self, model: &Model, clause: &'static str, expected: &str) -> (&'static str, &'static str) {
        if clause != "next!=first(cursor)" || self.features & F_RESUME != 0 {
            return ("C09", clause);
        }
        let exp = expected;
        match model.fresh_kth(self.reidx, &self.text, self.start, self.nexts) {
            Some(f) if f == exp => ("C19", "iterator-result-depends-on-history"),
            _ => ("C09", clause),
        }
    }

    pub fn new(reidx: u32, spec: &RegexSpec, hay: u32, ascii: bool, text: &str, start: usize) -> IterModel {
        let mut features = 0;
        if start == text.len() {
            features |= F_START_LEN;
        } else if start > text.len() {
            features |= F_START_BEYOND;
        } else if start > 0 {
            features |= F_START_MID;
        }
        let mut hist = Fnv::default();
        hist.str(&spec.pattern);
        hist.str(&spec.flags);
        hist.byte(spec.exec as u8);
        hist.byte(spec.input as u8);
        hist.str(text);
        hist.u64(start as u64);
        IterModel {
            reidx,
            hay,
            ascii,
            text: text.to_string(),
            start,
            cursor: if start <= text.len() { Some(start) } else { None },
            exhausted: false,
            prev: None,
            count: 0,
            nexts: 0,
            features,
            hist,
        }
    }

    fn advance_past_empty(&self, end: usize) -> Option<usize> {
        let len = self.text.len();
        if end >= len {
            return None;
        }
        if self.ascii {
            return Some(end + 1);
        }
        let mut p = end + 1;
        while p < len && !self.text.is_char_boundary(p) {
            p += 1;
        }
        Some(p)
    }

    /// The rest of this iterator according to the model: unfold of FIRST from the current
    /// cursor, as (formatted match, start, end). None = unknown (fuel) or longer than `cap`.
    pub fn peek_rest(&self, model: &Model, cap: usize) -> Option<Vec<(String, usize, usize)>> {
        let mut out = Vec::new();
        if self.exhausted {
            return Some(out);
        }
        let mut cur = self.cursor;
        while let Some(c) = cur {
            let a = model.first(self.reidx, &self.text, c);
            match (a.outcome, a.range) {
                (None, _) => return None,
                (Some(s), Some((ms, me))) => {
                    out.push((s, ms, me));
                    cur = if me > ms { Some(me.min(self.text.len())) } else { self.advance_past_empty(me) };
                }
                (Some(s), None) => {
                    if s != "None" {
                        return None; // NoRegex / Panicked: not modelled here
                    }
                    break;
                }
            }
            if out.len() > cap {
                return None;
            }
        }
        Some(out)
    }

    /// Advance the model over matches the engine consumed without showing them (nth).
    pub fn apply_expected(&mut self, consumed: &[(String, usize, usize)], ran_dry: bool) {
        for (s, ms, me) in consumed {
            self.hist.str(s);
            self.nexts += 1;
            self.count += 1;
            self.prev = Some((*ms, *me));
            self.cursor = if me > ms { Some((*me).min(self.text.len())) } else { self.advance_past_empty(*me) };
        }
        if ran_dry {
            self.exhausted = true;
            self.nexts += 1;
        }
    }

    /// Check one observed `next()` result against the model and advance the model.
    pub fn step(&mut self, model: &Model, obs: &NextOut, unknown: &mut u64) -> Option<(&'static str, &'static str, String, String)> {
        self.nexts += 1;
        let len = self.text.len();
        let obs_s = match obs {
            NextOut::Some(m) => fmt_match(m),
            NextOut::None => "None".to_string(),
            NextOut::Panicked(p) => format!("Panicked({})", p),
        };
        self.hist.str(&obs_s);
        let mut viol: Option<(&'static str, &'static str, String, String)> = None;

        // expectation
        let cursor_before = self.cursor;
        let expected: Option<String> = if self.exhausted {
            self.features |= F_REPOLL;
            Some("None".into())
        } else {
            match self.cursor {
                None => Some("None".into()),
                Some(c) => model.first(self.reidx, &self.text, c).outcome,
            }
        };
        match &expected {
            None => *unknown += 1,
            Some(e) => {
                if *e != obs_s {
                    let clause = if self.exhausted {
                        "none-not-absorbing"
                    } else if self.cursor.is_none() {
                        "start-beyond-end-yields"
                    } else {
                        "next!=first(cursor)"
                    };
                    let (property, clause) = if matches!(obs, NextOut::Panicked(_)) { ("C09", clause) } else { self.attribute(model, clause, e) };
                    viol = Some((property, clause, format!("{} [cursor={:?}]", e, self.cursor), obs_s.clone()));
                }
            }
        }

        // invariants that do not depend on FIRST
        match obs {
            NextOut::Some(m) => {
                let (s, e) = (m.start(), m.end());
                let mut bad: Option<(&'static str, String)> = None;
                if !(s <= e && e <= len) {
                    bad = Some(("range-out-of-bounds", format!("0<=start<=end<={}", len)));
                } else if !self.ascii && !(self.text.is_char_boundary(s) && self.text.is_char_boundary(e)) {
                    bad = Some(("range-not-on-char-boundary", "char boundaries".into()));
                } else if let Some(c) = cursor_before {
                    if s < c {
                        bad = Some(("match-before-cursor", format!("start>={}", c)));
                    }
                }
                if bad.is_none() {
                    if let Some((ps, pe)) = self.prev {
                        if s < pe {
                            bad = Some(("overlap", format!("start>={} (previous end)", pe)));
                        } else if s <= ps {
                            bad = Some(("not-increasing", format!("start>{} (previous start)", ps)));
                        }
                    }
                }
                self.count += 1;
                if bad.is_none() && self.start <= len && (self.ascii || self.text.is_char_boundary(self.start)) {
                    let positions = if self.ascii { len - self.start } else { self.text[self.start..].chars().count() };
                    if self.count > positions as u64 + 1 {
                        bad = Some(("too-many-matches", format!("<= {} matches", positions + 1)));
                    }
                }
                if viol.is_none() {
                    if let Some((c, exp)) = bad {
                        viol = Some(("C09", c, exp, obs_s.clone()));
                    }
                }
                if s == e {
                    self.features |= F_EMPTY;
                    if e >= len {
                        self.features |= F_EMPTY_AT_END;
                    } else if !self.ascii && e < len && self.text.is_char_boundary(e) && self.text[e..].chars().next().map(|c| c.len_utf8() > 1).unwrap_or(false) {
                        self.features |= F_EMPTY_MULTIBYTE;
                    }
                }
                self.prev = Some((s, e));
                self.cursor = if e > s { Some(e.min(len)) } else { self.advance_past_empty(e) };
                if self.exhausted {
                    // already reported as none-not-absorbing; keep model exhausted
                }
            }
            NextOut::None => {
                self.exhausted = true;
            }
            NextOut::Panicked(_) => {
                self.exhausted = true;
            }
        }
        viol
    }
}

// ---------------------------------------------------------------- per-op records

#[derive(Clone, Copy, Debug, PartialEq)]
pub enum Fault {
    None,
    Cancelled,
    Fuel,
}

#[derive(Clone, Debug)]
pub struct OpRec {
    pub outcome: String,
    pub steps: u64,
    pub fault: Fault,
    /// ops on a handle that died earlier are skipped; they compare as equal to anything
    pub skipped_dead: bool,
}

#[derive(Default, Clone, Debug)]
pub struct ClientStats {
    pub ops: u64,
    pub nexts: u64,
    pub matches: u64,
    pub repoll: u64,
    pub resume: u64,
    pub sibling_steps: u64,
    pub rewrite: u64,
    pub clone_ops: u64,
    pub clone_while_original_midsearch: u64,
    pub cancel_fired: u64,
    pub fuel_fired: u64,
    pub engine_panics: u64,
    pub nested: u64,
    pub model_unknown: u64,
    pub compile_ops: u64,
    pub compile_errs: u64,
    pub bursts: u64,
    pub closure_panics: u64,
    pub adaptors: u64,
    pub compile_debug_differs: u64,
    pub kept_matches_rechecked: u64,
    /// finished iterator histories: (history hash, features, nexts)
    pub iter_histories: Vec<(u64, u32, u32)>,
    pub range_observation_failures: u64,
}

struct Handle {
    it: Option<DynIter>,
    re: Option<Arc<Regex>>,
    obj: u32,
    model: IterModel,
    dead: bool,
}

impl Drop for Handle {
    fn drop(&mut self) {
        // iterator first, then the Regex it borrows
        self.it = None;
        self.re = None;
    }
}

#[derive(Clone, Copy, PartialEq, Debug)]
pub enum PassKind {
    /// sequential, every use compiles a fresh private Regex
    Fresh,
    /// threads under the scheduler on shared objects
    Sim,
    /// sequential, reverse thread order, on the shared objects that went through Sim
    After,
}

pub struct PassShared<'a> {
    pub world: &'a World,
    pub kind: PassKind,
    pub pass_no: u8,
    pub regs: &'a [Result<Arc<Regex>, String>],
    pub bufs: &'a [HayBuf],
    pub model: &'a Model<'a>,
    pub pass1: Option<&'a PassRes>,
    pub sched: Option<&'a Scheduler>,
}

pub struct PassRes {
    pub recs: Vec<Vec<OpRec>>,
    pub c09: Vec<C09Viol>,
    pub stats: ClientStats,
    pub sites: [u64; NSITES],
    pub steps: u64,
    pub ev: u64,
    pub trace: Vec<Segment>,
    pub sched_stats: SchedStats,
}

struct Client<'a> {
    sh: &'a PassShared<'a>,
    tid: usize,
    handles: Vec<Option<Handle>>,
    clones: Vec<Option<Arc<Regex>>>,
    clone_srcs: RefCell<crate::rng::DetMap<u32, u32>>,
    recs: Vec<OpRec>,
    c09: Vec<C09Viol>,
    stats: ClientStats,
    /// a few Match values kept alive with what they looked like when they were returned
    kept: Vec<(usize, Match, String)>,
}

/// Which entry point a Find op uses in the utf16 build stratum: a pure function of the
/// regex spec and the haystack text, so every pass and the pristine process agree.
#[cfg(feature = "cfg-utf16")]
fn find16_kind(spec: &RegexSpec, text: &str) -> Option<u8> {
    if spec.exec != ExecKind::Backtrack || spec.input != InputKind::Utf8 {
        return None;
    }
    let mut h = Fnv::default();
    h.str(&spec.pattern);
    h.str(&spec.flags);
    h.str(text);
    match (h.0 >> 11) % 3 {
        0 => None,
        1 => Some(0),
        _ => Some(1),
    }
}
#[cfg(not(feature = "cfg-utf16"))]
fn find16_kind(_spec: &RegexSpec, _text: &str) -> Option<u8> {
    None
}

enum Armed {
    /// iterator next on handle
    Next(u32),
    Drain(u32),
    Find(Arc<Regex>, u32, &'static str),
    /// utf16 build stratum: the one-shot search goes through find_from_utf16 (kind 0) or
    /// find_from_ucs2 (kind 1) on the transcoded haystack
    #[allow(dead_code)]
    Find16(Arc<Regex>, u32, &'static str, u8),
    Replace(Arc<Regex>, u32, &'static str, String, bool),
    Nested(Arc<Regex>, u32, &'static str, Arc<Regex>, u32),
    Compile(u32, &'static str),
    CloneRe(Arc<Regex>),
    Burst(Arc<Regex>, u32, &'static str, u32),
    ReplacePanic(Arc<Regex>, &'static str, u32),
    Adaptor(u32, u32, u32),
}

enum ArmedOut {
    Next(Option<Match>),
    Drain(Vec<Match>, bool),
    Text(String),
    Cloned(Arc<Regex>),
    /// (kind, count / match / size_hint)
    Adapted(u32, usize, Option<Match>, (usize, Option<usize>)),
}

impl<'a> Client<'a> {
    fn new(sh: &'a PassShared<'a>, tid: usize) -> Self {
        Client { sh, tid, handles: Vec::new(), clones: Vec::new(), clone_srcs: RefCell::new(Default::default()), kept: Vec::new(), recs: Vec::new(), c09: Vec::new(), stats: ClientStats::default() }
    }

    fn spec(&self, reidx: u32) -> &'a RegexSpec {
        &self.sh.world.regexes[reidx as usize]
    }

    /// Resolve a regex reference to (object, spec index, object id). In the Fresh
    /// pass every use compiles a brand-new private Regex.
    fn resolve(&self, r: ReRef) -> Result<(Arc<Regex>, u32, u32), String> {
        match r {
            ReRef::Shared(i) => {
                let i = i % self.sh.world.regexes.len() as u32;
                if self.sh.kind == PassKind::Fresh {
                    compile(self.spec(i)).map(|re| (Arc::new(re), i, NO_OBJ))
                } else {
                    match &self.sh.regs[i as usize] {
                        Ok(a) => Ok((a.clone(), i, i)),
                        Err(e) => Err(e.clone()),
                    }
                }
            }
            ReRef::Clone(c) => {
                let slot = self.clones.get(c as usize).and_then(|x| x.as_ref());
                match slot {
                    None => Err("no-clone".into()),
                    Some(a) => {
                        let reidx = self.clone_src(c);
                        if self.sh.kind == PassKind::Fresh {
                            compile(self.spec(reidx)).map(|re| (Arc::new(re), reidx, NO_OBJ))
                        } else {
                            Ok((a.clone(), reidx, 1000 + (self.tid as u32) * 16 + c))
                        }
                    }
                }
            }
        }
    }

    fn clone_src(&self, c: u32) -> u32 {
        self.clone_srcs.borrow().get(&c).copied().unwrap_or(0)
    }

    fn resolve_start(text: &str, s: Start, ascii: bool) -> usize {
        match s {
            Start::Zero => 0,
            Start::Len => text.len(),
            Start::Beyond(n) => text.len() + n.max(1) as usize,
            Start::Boundary(k) => {
                if ascii {
                    if text.is_empty() {
                        0
                    } else {
                        k as usize % (text.len() + 1)
                    }
                } else {
                    let bs: Vec<usize> = text.char_indices().map(|(i, _)| i).chain(std::iter::once(text.len())).collect();
                    bs[k as usize % bs.len()]
                }
            }
        }
    }

    fn live_handles_on(&self, hay: u32) -> usize {
        self.handles.iter().flatten().filter(|h| h.model.hay == hay && h.it.is_some()).count()
    }

    fn finish_handle(&mut self, h: Handle) {
        if h.model.nexts > 0 {
            self.stats.iter_histories.push((h.model.hist.0, h.model.features, h.model.nexts));
        }
        drop(h);
    }

    fn set_handle(&mut self, idx: u32, h: Handle) {
        let idx = idx as usize;
        if self.handles.len() <= idx {
            self.handles.resize_with(idx + 1, || None);
        }
        if let Some(old) = self.handles[idx].take() {
            self.finish_handle(old);
        }
        self.handles[idx] = Some(h);
    }

    fn rec(&mut self, outcome: String, steps: u64, fault: Fault) {
        self.recs.push(OpRec { outcome, steps, fault, skipped_dead: false });
    }

    fn run_script(&mut self, ctx: &Ctx) {
        let ops = &self.sh.world.threads[self.tid];
        for (i, op) in ops.iter().enumerate() {
            if let Some(s) = self.sh.sched {
                s.decision_point(self.tid, 0, 0, 0, NO_OBJ);
            }
            self.run_op(ctx, i, op);
            debug_assert_eq!(self.recs.len(), i + 1);
        }
        let hs: Vec<Handle> = self.handles.drain(..).flatten().collect();
        for h in hs {
            self.finish_handle(h);
        }
        self.clones.clear();
        // a Match is a value: it must still look the way it looked when it was returned,
        // whatever was searched or compiled since
        let kept = std::mem::take(&mut self.kept);
        for (op, m, was) in kept {
            self.stats.kept_matches_rechecked += 1;
            let now = fmt_match(&m);
            if now != was {
                self.c09.push(C09Viol {
                    property: "C19",
                    pass: self.sh.pass_no,
                    thread: self.tid,
                    op,
                    clause: "match-value-changed-after-the-fact",
                    expected: was,
                    observed: format!("{} (same Match object, re-read at the end of the script)", now),
                });
            }
        }
    }

    fn run_op(&mut self, ctx: &Ctx, i: usize, op: &Op) {
        self.stats.ops += 1;
        let world = self.sh.world;
        let nhay = world.hays.len() as u32;
        // ---- prepare (hook not armed)
        let armed: Armed = match &op.kind {
            OpKind::Open { h, re, hay, start } => {
                let hay = *hay % nhay;
                let text = self.sh.bufs[hay as usize].text();
                match self.resolve(*re) {
                    Err(e) => {
                        if let Some(slot) = self.handles.get_mut(*h as usize) {
                            if let Some(old) = slot.take() {
                                self.finish_handle(old);
                            }
                        }
                        self.rec(format!("NoRegex({})", e), 0, Fault::None);
                    }
                    Ok((rx, reidx, obj)) => {
                        let spec = self.spec(reidx);
                        let ascii = spec.input == InputKind::Ascii;
                        let st = Self::resolve_start(text, *start, ascii);
                        // creating the iterator allocates scratch but does not search
                        let it = open_iter(&rx, spec, text, st);
                        let model = IterModel::new(reidx, spec, hay, ascii, text, st);
                        self.set_handle(*h, Handle { it: Some(it), re: Some(rx), obj, model, dead: false });
                        self.rec(format!("Opened(start={})", st), 0, Fault::None);
                    }
                }
                return;
            }
            OpKind::Resume { h } => {
                let taken = self.handles.get_mut(*h as usize).and_then(|s| s.take());
                match taken {
                    None => self.rec("NoHandle".into(), 0, Fault::None),
                    Some(mut old) if old.dead => {
                        old.it = None;
                        self.handles[*h as usize] = Some(old);
                        self.recs.push(OpRec { outcome: "Dead".into(), steps: 0, fault: Fault::None, skipped_dead: true });
                    }
                    Some(mut old)
                        if !old.model.ascii
                            && old.model.cursor.map(|c| {
                                let t = self.sh.bufs[old.model.hay as usize].text();
                                c <= t.len() && !t.is_char_boundary(c)
                            }) == Some(true) =>
                    {
                        // the iterator reported a range that does not end on a character boundary
                        // (already recorded as a violation by the model): its cursor is no place
                        // to resume from, the handle is finished
                        old.it = None;
                        old.dead = true;
                        self.handles[*h as usize] = Some(old);
                        self.recs.push(OpRec { outcome: "Dead".into(), steps: 0, fault: Fault::None, skipped_dead: true });
                    }
                    Some(mut old) => {
                        // crash of the iterator: only the observed cursor survives
                        old.it = None;
                        let reidx = old.model.reidx;
                        let hay = old.model.hay;
                        let text = self.sh.bufs[hay as usize].text();
                        let st = match old.model.cursor {
                            Some(c) => c,
                            None => text.len() + 1,
                        };
                        let rx = if self.sh.kind == PassKind::Fresh {
                            compile(self.spec(reidx)).map(Arc::new).ok()
                        } else {
                            old.re.clone()
                        };
                        match rx {
                            None => self.rec("NoRegex".into(), 0, Fault::None),
                            Some(rx) => {
                                let spec = self.spec(reidx);
                                let it = open_iter(&rx, spec, text, st);
                                let mut model = old.model.clone();
                                model.features |= F_RESUME;
                                model.hist.str("resume");
                                // a reopened iterator is not exhausted by construction: the model
                                // keeps `exhausted` only if it had already seen None (then FIRST is None again)
                                let obj = old.obj;
                                drop(old);
                                self.handles[*h as usize] = Some(Handle { it: Some(it), re: Some(rx), obj, model, dead: false });
                                self.stats.resume += 1;
                                self.rec(format!("Resumed(start={})", st), 0, Fault::None);
                            }
                        }
                    }
                }
                return;
            }
            OpKind::DropIter { h } => {
                let taken = self.handles.get_mut(*h as usize).and_then(|s| s.take());
                match taken {
                    None => self.rec("NoHandle".into(), 0, Fault::None),
                    Some(old) => {
                        self.finish_handle(old);
                        self.rec("Dropped".into(), 0, Fault::None);
                    }
                }
                return;
            }
            OpKind::DropClone { c } => {
                match self.clones.get_mut(*c as usize).and_then(|s| s.take()) {
                    None => self.rec("NoClone".into(), 0, Fault::None),
                    Some(a) => {
                        drop(a);
                        self.rec("DroppedClone".into(), 0, Fault::None);
                    }
                }
                return;
            }
            OpKind::Rewrite { hay, text } => {
                let hay = *hay % nhay;
                let own = world.hays[hay as usize].owner;
                if own != Some(self.tid as u32) || self.live_handles_on(hay) > 0 {
                    self.rec("SkippedRewrite".into(), 0, Fault::None);
                } else if self.sh.bufs[hay as usize].overwrite(text) {
                    self.stats.rewrite += 1;
                    self.rec("Rewritten".into(), 0, Fault::None);
                } else {
                    self.rec("SkippedRewrite".into(), 0, Fault::None);
                }
                return;
            }
            OpKind::Adaptor { h, kind, k } => match self.handles.get(*h as usize).and_then(|s| s.as_ref()) {
                None => {
                    self.rec("NoHandle".into(), 0, Fault::None);
                    return;
                }
                Some(hd) if hd.dead || hd.it.is_none() => {
                    self.recs.push(OpRec { outcome: "Dead".into(), steps: 0, fault: Fault::None, skipped_dead: true });
                    return;
                }
                Some(_) => Armed::Adaptor(*h, *kind % 8, *k),
            },
            OpKind::Next { h } | OpKind::Drain { h } => match self.handles.get(*h as usize).and_then(|s| s.as_ref()) {
                None => {
                    self.rec("NoHandle".into(), 0, Fault::None);
                    return;
                }
                Some(hd) if hd.dead || hd.it.is_none() => {
                    self.recs.push(OpRec { outcome: "Dead".into(), steps: 0, fault: Fault::None, skipped_dead: true });
                    return;
                }
                Some(_) => {
                    if matches!(op.kind, OpKind::Next { .. }) {
                        Armed::Next(*h)
                    } else {
                        Armed::Drain(*h)
                    }
                }
            },
            OpKind::CloneRegex { c: _, re } => {
                let re = *re % world.regexes.len() as u32;
                // In the Fresh pass the source is a fresh private compile as well.
                match self.resolve(ReRef::Shared(re)) {
                    Err(e) => {
                        self.rec(format!("NoRegex({})", e), 0, Fault::None);
                        return;
                    }
                    Ok((rx, _, _)) => Armed::CloneRe(rx),
                }
            }
            OpKind::Find { re, hay } => {
                let hay = *hay % nhay;
                match self.resolve(*re) {
                    Err(e) => {
                        self.rec(format!("NoRegex({})", e), 0, Fault::None);
                        return;
                    }
                    Ok((rx, reidx, _)) => {
                        let text = self.sh.bufs[hay as usize].text();
                        match find16_kind(self.spec(reidx), text) {
                            Some(k) => Armed::Find16(rx, reidx, text, k),
                            None => Armed::Find(rx, reidx, text),
                        }
                    }
                }
            }
            OpKind::Replace { re, hay, tpl, all } => {
                let hay = *hay % nhay;
                match self.resolve(*re) {
                    Err(e) => {
                        self.rec(format!("NoRegex({})", e), 0, Fault::None);
                        return;
                    }
                    Ok((rx, reidx, _)) => Armed::Replace(rx, reidx, self.sh.bufs[hay as usize].text(), tpl.clone(), *all),
                }
            }
            OpKind::ReplaceNested { re, hay, inner } => {
                let hay = *hay % nhay;
                match (self.resolve(*re), self.resolve(*inner)) {
                    (Ok((rx, reidx, _)), Ok((ix, iidx, _))) => Armed::Nested(rx, reidx, self.sh.bufs[hay as usize].text(), ix, iidx),
                    (Err(e), _) | (_, Err(e)) => {
                        self.rec(format!("NoRegex({})", e), 0, Fault::None);
                        return;
                    }
                }
            }
            OpKind::Compile { re, hay } => {
                let hay = *hay % nhay;
                Armed::Compile(*re % world.regexes.len() as u32, self.sh.bufs[hay as usize].text())
            }
            OpKind::ReplacePanic { re, hay, k } => {
                let hay = *hay % nhay;
                match self.resolve(*re) {
                    Err(e) => {
                        self.rec(format!("NoRegex({})", e), 0, Fault::None);
                        return;
                    }
                    Ok((rx, _, _)) => Armed::ReplacePanic(rx, self.sh.bufs[hay as usize].text(), *k),
                }
            }
            OpKind::Burst { re, hay, n } => {
                let hay = *hay % nhay;
                match self.resolve(*re) {
                    Err(e) => {
                        self.rec(format!("NoRegex({})", e), 0, Fault::None);
                        return;
                    }
                    Ok((rx, reidx, _)) => Armed::Burst(rx, reidx, self.sh.bufs[hay as usize].text(), *n),
                }
            }
        };

        // which shared object is being searched (for in-flight statistics)
        let obj = match (&armed, &op.kind) {
            (Armed::Next(h), _) | (Armed::Drain(h), _) | (Armed::Adaptor(h, _, _), _) => self.handles[*h as usize].as_ref().map(|x| x.obj).unwrap_or(NO_OBJ),
            (_, OpKind::Find { re, .. }) | (_, OpKind::Replace { re, .. }) | (_, OpKind::ReplaceNested { re, .. }) | (_, OpKind::Burst { re, .. }) | (_, OpKind::ReplacePanic { re, .. }) => match re {
                ReRef::Shared(i) if self.sh.kind != PassKind::Fresh => *i % world.regexes.len() as u32,
                ReRef::Clone(c) if self.sh.kind != PassKind::Fresh => 1000 + (self.tid as u32) * 16 + c,
                _ => NO_OBJ,
            },
            (_, OpKind::CloneRegex { re, .. }) if self.sh.kind != PassKind::Fresh => *re % world.regexes.len() as u32,
            _ => NO_OBJ,
        };

        // ---- cancel arming: decided by the Fresh pass so all passes fault at the same op
        let cancel_at = match self.sh.pass1 {
            None => op.cancel_at,
            Some(p1) => {
                let r1 = &p1.recs[self.tid][i];
                if r1.fault == Fault::Cancelled {
                    op.cancel_at
                } else {
                    0
                }
            }
        };

        // ---- armed section
        ctx.op_steps.set(0);
        ctx.fuel.set(world.knobs.fuel);
        ctx.cancel_at.set(cancel_at);
        ctx.look_depth.set(0);
        ctx.cur_obj.set(obj);
        if let Some(s) = self.sh.sched {
            s.set_midsearch(self.tid, obj);
            if obj != NO_OBJ && matches!(op.kind, OpKind::CloneRegex { .. }) && s.others_midsearch(self.tid, obj) > 0 {
                self.stats.clone_while_original_midsearch += 1;
            }
        }
        IN_OP.with(|c| c.set(true));
        ctx.armed.set(true);
        let res = catch_unwind(AssertUnwindSafe(|| self.armed_part(&armed)));
        ctx.armed.set(false);
        IN_OP.with(|c| c.set(false));
        ctx.cur_obj.set(NO_OBJ);
        if let Some(s) = self.sh.sched {
            s.set_midsearch(self.tid, NO_OBJ);
        }
        let steps = ctx.op_steps.get();

        // ---- post (hook not armed)
        match res {
            Err(p) => {
                let (outcome, fault) = match p.downcast_ref::<SimCancel>() {
                    Some(SimCancel::Cancel) => {
                        self.stats.cancel_fired += 1;
                        ("Cancelled".to_string(), Fault::Cancelled)
                    }
                    Some(SimCancel::Fuel) => {
                        self.stats.fuel_fired += 1;
                        ("OutOfFuel".to_string(), Fault::Fuel)
                    }
                    None => {
                        self.stats.engine_panics += 1;
                        let msg = LAST_PANIC.with(|p| p.borrow_mut().take()).unwrap_or_else(|| "?".into());
                        (format!("Panicked({})", msg), Fault::None)
                    }
                };
                // never reuse an unwound object
                if let Armed::Next(h) | Armed::Drain(h) | Armed::Adaptor(h, _, _) = armed {
                    if let Some(hd) = self.handles[h as usize].as_mut() {
                        if fault == Fault::None && !is_poison_after_injected(&outcome) {
                            // an engine panic is an observation for the model as well
                            let mut unk = 0;
                            let v = hd.model.step(self.sh.model, &NextOut::Panicked(outcome.clone()), &mut unk);
                            self.stats.model_unknown += unk;
                            if let Some((property, clause, exp, obs)) = v {
                                self.c09.push(C09Viol { property, pass: self.sh.pass_no, thread: self.tid, op: i, clause, expected: exp, observed: obs });
                            }
                        }
                        hd.dead = true;
                        hd.it = None;
                    }
                }
                self.rec(outcome, steps, fault);
            }
            Ok(out) => match (out, armed) {
                (ArmedOut::Next(m), Armed::Next(h)) => {
                    let siblings = self.handles.iter().flatten().filter(|x| x.it.is_some()).count();
                    let hd = self.handles[h as usize].as_mut().unwrap();
                    self.stats.nexts += 1;
                    if hd.model.exhausted {
                        self.stats.repoll += 1;
                    }
                    if siblings > 1 {
                        hd.model.features |= F_SIBLING;
                        self.stats.sibling_steps += 1;
                    }
                    let obs = match m {
                        Some(m) => {
                            self.stats.matches += 1;
                            if self.kept.len() < 8 {
                                let f = fmt_match(&m);
                                self.kept.push((i, m.clone(), f));
                            }
                            NextOut::Some(m)
                        }
                        None => NextOut::None,
                    };
                    let outcome = match &obs {
                        NextOut::Some(m) => fmt_match(m),
                        _ => "None".to_string(),
                    };
                    let mut unk = 0;
                    let v = hd.model.step(self.sh.model, &obs, &mut unk);
                    self.stats.model_unknown += unk;
                    if let Some((property, clause, exp, obs)) = v {
                        self.c09.push(C09Viol { property, pass: self.sh.pass_no, thread: self.tid, op: i, clause, expected: exp, observed: obs });
                    }
                    self.rec(outcome, steps, Fault::None);
                }
                (ArmedOut::Drain(ms, ended), Armed::Drain(h)) => {
                    let hd = self.handles[h as usize].as_mut().unwrap();
                    let mut outcome = String::from("[");
                    let mut unk = 0;
                    let mut first_v = None;
                    for m in ms {
                        self.stats.nexts += 1;
                        self.stats.matches += 1;
                        outcome.push_str(&fmt_match(&m));
                        outcome.push(' ');
                        let v = hd.model.step(self.sh.model, &NextOut::Some(m), &mut unk);
                        if first_v.is_none() {
                            first_v = v;
                        }
                    }
                    if ended {
                        self.stats.nexts += 1;
                        let v = hd.model.step(self.sh.model, &NextOut::None, &mut unk);
                        if first_v.is_none() {
                            first_v = v;
                        }
                        outcome.push_str("None]");
                    } else {
                        outcome.push_str("...]");
                    }
                    self.stats.model_unknown += unk;
                    if let Some((property, clause, exp, obs)) = first_v {
                        self.c09.push(C09Viol { property, pass: self.sh.pass_no, thread: self.tid, op: i, clause, expected: exp, observed: obs });
                    }
                    self.rec(outcome, steps, Fault::None);
                }
                (ArmedOut::Adapted(kind, n, m, hint), Armed::Adaptor(h, _, _)) => {
                    // what the model says the rest of this iterator is
                    let hd = self.handles[h as usize].as_mut().unwrap();
                    let rest = hd.model.peek_rest(self.sh.model, 1200);
                    let (outcome, viol): (String, Option<(String, String)>) = match (kind, &rest) {
                        (0, Some(r)) => (format!("Count({})", n), if r.len() != n { Some((format!("count() == {}", r.len()), format!("{}", n))) } else { None }),
                        (1, Some(r)) => {
                            let got = m.as_ref().map(fmt_match).unwrap_or_else(|| "None".into());
                            let exp = r.last().map(|x| x.0.clone()).unwrap_or_else(|| "None".into());
                            (format!("Last({})", got), if exp != got { Some((format!("last() == {}", exp), got)) } else { None })
                        }
                        (2, Some(r)) => {
                            let got = m.as_ref().map(fmt_match).unwrap_or_else(|| "None".into());
                            let exp = r.get(n).map(|x| x.0.clone()).unwrap_or_else(|| "None".into());
                            (format!("Nth({};{})", n, got), if exp != got { Some((format!("nth({}) == {}", n, exp), got)) } else { None })
                        }
                        (3, Some(r)) => {
                            let ok = hint.0 <= r.len() && hint.1.map(|hi| r.len() <= hi).unwrap_or(true);
                            (format!("SizeHint({:?})", hint), if !ok { Some((format!("size_hint bounds the {} remaining matches", r.len()), format!("{:?}", hint))) } else { None })
                        }
                        (4..=6, Some(r)) => {
                            let name = ["Fold", "ForEach", "Collect"][(kind - 4) as usize];
                            let got = format!("{};{}", n, m.as_ref().map(fmt_match).unwrap_or_else(|| "None".into()));
                            let exp = format!("{};{}", r.len(), r.last().map(|x| x.0.clone()).unwrap_or_else(|| "None".into()));
                            (format!("{}({})", name, got), if exp != got { Some((format!("{} over the rest == {}", name, exp), got)) } else { None })
                        }
                        (7, Some(r)) => {
                            let got = m.as_ref().map(fmt_match).unwrap_or_else(|| "None".into());
                            let exp = r.iter().find(|x| x.2 > x.1).map(|x| x.0.clone()).unwrap_or_else(|| "None".into());
                            (format!("FindNonEmpty({})", got), if exp != got { Some((format!("find(non-empty) == {}", exp), got)) } else { None })
                        }
                        (0, None) => (format!("Count({})", n), None),
                        (3, None) => (format!("SizeHint({:?})", hint), None),
                        (4..=6, None) => (format!("{}({};{})", ["Fold", "ForEach", "Collect"][(kind - 4) as usize], n, m.as_ref().map(fmt_match).unwrap_or_else(|| "None".into())), None),
                        (7, None) => (format!("FindNonEmpty({})", m.as_ref().map(fmt_match).unwrap_or_else(|| "None".into())), None),
                        (k, None) => (format!("{}({})", if k == 1 { "Last" } else { "Nth" }, m.as_ref().map(fmt_match).unwrap_or_else(|| "None".into())), None),
                        _ => ("?".into(), None),
                    };
                    if rest.is_none() {
                        self.stats.model_unknown += 1;
                    }
                    if let Some((exp, obs)) = viol {
                        self.c09.push(C09Viol { property: "C09", pass: self.sh.pass_no, thread: self.tid, op: i, clause: ["adaptor-count", "adaptor-last", "adaptor-nth", "adaptor-size_hint", "adaptor-fold", "adaptor-for_each", "adaptor-collect", "adaptor-find"][kind as usize], expected: exp, observed: obs });
                    }
                    // advance the model the way the adaptor advanced the iterator
                    match kind {
                        0 | 1 | 4 | 5 | 6 => {
                            hd.model.features |= F_ADAPTOR;
                            hd.model.exhausted = true;
                            hd.model.nexts += 1;
                            hd.dead = false;
                        }
                        7 => {
                            hd.model.features |= F_ADAPTOR;
                            if let Some(r) = &rest {
                                match r.iter().position(|x| x.2 > x.1) {
                                    Some(i) => hd.model.apply_expected(&r[..=i], false),
                                    None => hd.model.apply_expected(&r[..], true),
                                }
                            } else {
                                hd.dead = true;
                                hd.it = None;
                            }
                        }
                        2 => {
                            hd.model.features |= F_ADAPTOR;
                            if let Some(r) = &rest {
                                hd.model.apply_expected(&r[..(n + 1).min(r.len())], r.len() <= n);
                            } else {
                                hd.dead = true;
                                hd.it = None;
                            }
                        }
                        _ => {}
                    }
                    self.stats.adaptors += 1;
                    self.rec(outcome, steps, Fault::None);
                }
                (ArmedOut::Cloned(a), _) => {
                    if let OpKind::CloneRegex { c, re } = &op.kind {
                        let c = *c as usize;
                        if self.clones.len() <= c {
                            self.clones.resize_with(c + 1, || None);
                        }
                        self.clones[c] = Some(a);
                        self.clone_srcs.borrow_mut().insert(c as u32, *re % world.regexes.len() as u32);
                        self.stats.clone_ops += 1;
                    }
                    self.rec("Cloned".into(), steps, Fault::None);
                }
                (ArmedOut::Text(s), armed) => {
                    if s.starts_with("BurstDiffers") {
                        self.c09.push(C09Viol {
                            property: "C19",
                            pass: self.sh.pass_no,
                            thread: self.tid,
                            op: i,
                            clause: "repeated-search-result-changes",
                            expected: "every repetition of the same search on the same Regex gives the first result".into(),
                            observed: s.clone(),
                        });
                    }
                    // Reference-pass self check: the same one-shot op on a private copy of the
                    // haystack (fresh address) with freshly compiled Regex objects must give the
                    // same answer; otherwise the result depended on history or buffer identity.
                    if self.sh.kind == PassKind::Fresh && world.knobs.pristine && crate::pristine::available() {
                        if let Some(req) = self.pristine_request(op, &armed) {
                            self.sh.model.stats.lock().unwrap().pristine_queries += 1;
                            match harness_blocking(|| crate::pristine::query(&req)) {
                                Some(p) if !p.starts_with('?') => {
                                    if p != s {
                                        self.c09.push(C09Viol {
                                            property: "C19",
                                            pass: self.sh.pass_no,
                                            thread: self.tid,
                                            op: i,
                                            clause: "result-depends-on-process-history",
                                            expected: format!("{} (same op in a pristine process)", p),
                                            observed: s.clone(),
                                        });
                                    }
                                }
                                _ => self.sh.model.stats.lock().unwrap().pristine_unknown += 1,
                            }
                        }
                    }
                    // find / replace / replace_all / replace_all_with are built on find_iter: the
                    // same answer must come out of iterating find_iter by hand (C09)
                    if self.sh.kind == PassKind::Fresh {
                        if let Some(exp) = self.expected_from_find_iter(&armed) {
                            if exp != s {
                                self.c09.push(C09Viol {
                                    property: "C09",
                                    pass: self.sh.pass_no,
                                    thread: self.tid,
                                    op: i,
                                    clause: "built-on-iterator-disagrees-with-find_iter",
                                    expected: format!("{} (spliced by hand over find_iter)", exp),
                                    observed: s.clone(),
                                });
                            }
                        }
                    }
                    if self.sh.kind == PassKind::Fresh {
                        if let Some(shadow) = self.shadow_oneshot(&armed) {
                            if shadow != s {
                                self.c09.push(C09Viol {
                                    property: "C19",
                                    pass: self.sh.pass_no,
                                    thread: self.tid,
                                    op: i,
                                    clause: "isolated-rerun-differs",
                                    expected: shadow,
                                    observed: s.clone(),
                                });
                            }
                        }
                    }
                    self.rec(s, steps, Fault::None);
                }
                _ => unreachable!("armed/out mismatch"),
            },
        }
    }

    /// The one-op world sent to a pristine grandchild for a one-shot op.
    fn pristine_request(&self, op: &Op, a: &Armed) -> Option<String> {
        let text: &str = match a {
            Armed::Find(_, _, t) | Armed::Find16(_, _, t, _) | Armed::Replace(_, _, t, _, _) | Armed::Nested(_, _, t, _, _) | Armed::Compile(_, t) => t,
            _ => return None,
        };
        let shared = |r: &ReRef| -> ReRef {
            match r {
                ReRef::Shared(i) => ReRef::Shared(*i % self.sh.world.regexes.len() as u32),
                ReRef::Clone(c) => ReRef::Shared(self.clone_src(*c)),
            }
        };
        let kind = match &op.kind {
            OpKind::Find { re, .. } => OpKind::Find { re: shared(re), hay: 0 },
            OpKind::Replace { re, tpl, all, .. } => OpKind::Replace { re: shared(re), hay: 0, tpl: tpl.clone(), all: *all },
            OpKind::ReplaceNested { re, inner, .. } => OpKind::ReplaceNested { re: shared(re), hay: 0, inner: shared(inner) },
            OpKind::Compile { re, .. } => OpKind::Compile { re: *re % self.sh.world.regexes.len() as u32, hay: 0 },
            _ => return None,
        };
        let w = World {
            regexes: self.sh.world.regexes.clone(),
            hays: vec![Hay { text: text.to_string(), owner: None }],
            threads: vec![vec![Op { kind, cancel_at: 0 }]],
            knobs: Knobs { fuel: self.sh.world.knobs.fuel.saturating_mul(10), strategy: Strategy::Serial, sched_seed: 0, max_switches: 0, pristine: false },
        };
        Some(w.to_json(&[]).set("k", J::s("op")).to_string())
    }

    /// What a convenience entry point must return if it is what it claims to be - a thin
    /// layer over find_iter: computed by iterating find_iter by hand on a freshly compiled
    /// Regex and a private copy of the text, in model mode. None = not applicable / unknown.
    fn expected_from_find_iter(&mut self, a: &Armed) -> Option<String> {
        let fuel = self.sh.world.knobs.fuel.saturating_mul(10);
        match a {
            Armed::Find(_, reidx, text) => {
                let spec = self.spec(*reidx);
                let copy = text.to_string();
                let t: &'static str = unsafe { &*(copy.as_str() as *const str) };
                let (r, _) = model_mode(fuel, || {
                    let re = compile(spec).ok()?;
                    let m = open_iter(&re, spec, t, 0).next();
                    Some(match m {
                        Some(m) => fmt_match(&m),
                        None => "None".to_string(),
                    })
                });
                r.ok().flatten()
            }
            Armed::Replace(_, reidx, text, tpl, all) if !tpl.contains('$') => {
                let spec = self.spec(*reidx);
                let copy = text.to_string();
                let (r, _) = model_mode(fuel, || {
                    let re = compile(spec).ok()?;
                    let mut out = String::new();
                    let mut last = 0;
                    for m in re.find_iter(&copy) {
                        out.push_str(&copy[last..m.start()]);
                        if tpl == "<>" {
                            out.push_str(&format!("<{}>", m.end() - m.start()));
                        } else {
                            out.push_str(tpl);
                        }
                        last = m.end();
                        if !*all {
                            break;
                        }
                    }
                    out.push_str(&copy[last..]);
                    Some(format!("Str({:?})", out))
                });
                r.ok().flatten()
            }
            _ => None,
        }
    }

    /// Re-run a one-shot op in model mode on a private copy of its haystack with freshly
    /// compiled Regex objects. None if not applicable or the rerun ran out of fuel.
    fn shadow_oneshot(&mut self, a: &Armed) -> Option<String> {
        let fuel = self.sh.world.knobs.fuel.saturating_mul(10);
        let copy: String;
        let fresh = |me: &Self, reidx: u32| compile(me.spec(reidx)).ok().map(Arc::new);
        let sh_armed = match a {
            Armed::Find(_, reidx, text) => {
                copy = text.to_string();
                Armed::Find(fresh(self, *reidx)?, *reidx, unsafe { &*(copy.as_str() as *const str) })
            }
            Armed::Find16(_, reidx, text, k) => {
                copy = text.to_string();
                Armed::Find16(fresh(self, *reidx)?, *reidx, unsafe { &*(copy.as_str() as *const str) }, *k)
            }
            Armed::Replace(_, reidx, text, tpl, all) => {
                copy = text.to_string();
                Armed::Replace(fresh(self, *reidx)?, *reidx, unsafe { &*(copy.as_str() as *const str) }, tpl.clone(), *all)
            }
            Armed::Nested(_, reidx, text, _, iidx) => {
                copy = text.to_string();
                Armed::Nested(fresh(self, *reidx)?, *reidx, unsafe { &*(copy.as_str() as *const str) }, fresh(self, *iidx)?, *iidx)
            }
            Armed::Compile(reidx, text) => {
                copy = text.to_string();
                Armed::Compile(*reidx, unsafe { &*(copy.as_str() as *const str) })
            }
            _ => return None,
        };
        let saved = (self.stats.nested, self.stats.compile_ops, self.stats.compile_errs);
        let (r, _) = model_mode(fuel, || self.armed_part(&sh_armed));
        self.stats.nested = saved.0;
        self.stats.compile_ops = saved.1;
        self.stats.compile_errs = saved.2;
        drop(sh_armed);
        match r {
            Ok(ArmedOut::Text(t)) => Some(t),
            _ => None,
        }
    }

    fn armed_part(&mut self, a: &Armed) -> ArmedOut {
        match a {
            Armed::Next(h) => {
                let hd = self.handles[*h as usize].as_mut().unwrap();
                ArmedOut::Next(hd.it.as_mut().unwrap().next())
            }
            Armed::Drain(h) => {
                let hd = self.handles[*h as usize].as_mut().unwrap();
                let it = hd.it.as_mut().unwrap();
                let mut out = Vec::new();
                let mut ended = false;
                for _ in 0..700 {
                    match it.next() {
                        Some(m) => out.push(m),
                        None => {
                            ended = true;
                            break;
                        }
                    }
                }
                ArmedOut::Drain(out, ended)
            }
            Armed::Adaptor(h, kind, k) => {
                let hd = self.handles[*h as usize].as_mut().unwrap();
                match kind {
                    0 => {
                        let it = hd.it.take().unwrap();
                        ArmedOut::Adapted(0, it.count_rest(), None, (0, None))
                    }
                    1 => {
                        let it = hd.it.take().unwrap();
                        ArmedOut::Adapted(1, 0, it.last_rest(), (0, None))
                    }
                    2 => {
                        let it = hd.it.as_mut().unwrap();
                        ArmedOut::Adapted(2, *k as usize, it.nth_(*k as usize), (0, None))
                    }
                    4 | 5 | 6 => {
                        // fold (what max_by_key, partition, ... are built on), for_each, collect
                        let it = hd.it.take().unwrap();
                        let (n, last) = match kind {
                            4 => it.fold_rest(),
                            5 => it.for_each_rest(),
                            _ => it.collect_rest(),
                        };
                        ArmedOut::Adapted(*kind, n, last, (0, None))
                    }
                    7 => {
                        // find (try_fold family): consumes up to and including the first non-empty match
                        let it = hd.it.as_mut().unwrap();
                        ArmedOut::Adapted(7, 0, it.find_nonempty(), (0, None))
                    }
                    _ => {
                        let it = hd.it.as_ref().unwrap();
                        ArmedOut::Adapted(3, 0, None, it.size_hint_())
                    }
                }
            }
            Armed::CloneRe(rx) => {
                let c: Regex = (**rx).clone();
                ArmedOut::Cloned(Arc::new(c))
            }
            Armed::Find(rx, reidx, text) => {
                let spec = self.spec(*reidx);
                // the convenience entry points where they exist, otherwise a one-shot iterator
                let m = match (spec.exec, spec.input) {
                    (ExecKind::Backtrack, InputKind::Utf8) => rx.find(text),
                    (ExecKind::Backtrack, InputKind::Ascii) => rx.find_ascii(text),
                    _ => open_iter(rx, spec, text, 0).next(),
                };
                ArmedOut::Text(match m {
                    Some(m) => fmt_match(&m),
                    None => "None".into(),
                })
            }
            #[cfg(feature = "cfg-utf16")]
            Armed::Find16(rx, _reidx, text, kind) => {
                // a new buffer per op, freed afterwards: the allocator hands the same block to
                // later ops with other contents
                let t16: Vec<u16> = text.encode_utf16().collect();
                let v: Vec<String> = if *kind == 0 { rx.find_from_utf16(&t16, 0).take(8).map(|m| fmt_match(&m)).collect() } else { rx.find_from_ucs2(&t16, 0).take(8).map(|m| fmt_match(&m)).collect() };
                ArmedOut::Text(format!("{}[{}]", if *kind == 0 { "Utf16" } else { "Ucs2" }, v.join(",")))
            }
            #[cfg(not(feature = "cfg-utf16"))]
            Armed::Find16(..) => ArmedOut::Text("?".into()),
            Armed::Replace(rx, _reidx, text, tpl, all) => {
                // the template "<>" selects the closure forms (replace_with / replace_all_with)
                let s = if tpl == "<>" {
                    if *all {
                        rx.replace_all_with(text, |m| format!("<{}>", m.end() - m.start()))
                    } else {
                        rx.replace_with(text, |m| format!("<{}>", m.end() - m.start()))
                    }
                } else if *all {
                    rx.replace_all(text, tpl)
                } else {
                    rx.replace(text, tpl)
                };
                ArmedOut::Text(format!("Str({:?})", s))
            }
            Armed::Nested(rx, _reidx, text, ix, iidx) => {
                let ispec = self.spec(*iidx);
                let text: &'static str = text;
                let s = rx.replace_all_with(text, |m| {
                    // re-entrancy: a nested search on a (possibly the same) Regex while the
                    // outer iterator is alive
                    let st = m.end().min(text.len());
                    let st = if ispec.input == InputKind::Ascii || text.is_char_boundary(st) { st } else { text.len() };
                    let inner = open_iter(ix, ispec, text, st).next();
                    let again = rx.find(m.as_str(text));
                    format!(
                        "<{}|{}|{}>",
                        m.range().len(),
                        inner.map(|i| fmt_match(&i)).unwrap_or_else(|| "None".into()),
                        again.map(|i| fmt_match(&i)).unwrap_or_else(|| "None".into())
                    )
                });
                self.stats.nested += 1;
                ArmedOut::Text(format!("Str({:?})", s))
            }
            Armed::ReplacePanic(rx, text, k) => {
                // panic in user code: the closure unwinds out of replace_all_with on its k-th
                // call, between two matches, while the library's iterator is alive
                struct UserPanic;
                let calls = std::cell::Cell::new(0u32);
                let text: &'static str = text;
                let r = catch_unwind(AssertUnwindSafe(|| {
                    rx.replace_all_with(text, |m| {
                        calls.set(calls.get() + 1);
                        if calls.get() >= *k {
                            std::panic::resume_unwind(Box::new(UserPanic));
                        }
                        format!("[{}]", m.range().len())
                    })
                }));
                self.stats.closure_panics += 1;
                match r {
                    Ok(s) => ArmedOut::Text(format!("Str({:?})", s)),
                    Err(p) => {
                        if p.is::<UserPanic>() {
                            ArmedOut::Text(format!("ClosurePanicked(at call {})", calls.get()))
                        } else {
                            std::panic::resume_unwind(p)
                        }
                    }
                }
            }
            Armed::Burst(rx, reidx, text, n) => {
                // A long history on one object: cycle over the op's haystack and every other
                // haystack this thread may read (shared immutable ones and its own), n rounds.
                // Every repetition of a search must give what its first occurrence gave.
                let spec = self.spec(*reidx);
                let ascii = spec.input == InputKind::Ascii;
                let mut texts: Vec<&'static str> = vec![*text];
                for (i, h) in self.sh.world.hays.iter().enumerate() {
                    let t = self.sh.bufs[i].text();
                    if (h.owner.is_none() || h.owner == Some(self.tid as u32)) && t.as_ptr() != text.as_ptr() && (!ascii || t.is_ascii()) {
                        texts.push(t);
                    }
                }
                let mut first: Vec<Option<String>> = vec![None; texts.len()];
                // utf16 build stratum: the same object is also searched through the UTF-16 and
                // UCS-2 entry points on the transcoded haystacks, interleaved with the UTF-8
                // searches (mixed history on one object; the hook sites are input-generic)
                #[cfg(feature = "cfg-utf16")]
                let texts16: Vec<Vec<u16>> = texts.iter().map(|t| t.encode_utf16().collect()).collect();
                #[cfg(feature = "cfg-utf16")]
                let mut first16: Vec<[Option<String>; 2]> = vec![[None, None]; texts.len()];
                #[cfg(feature = "cfg-utf16")]
                let with16 = spec.exec == ExecKind::Backtrack && spec.input == InputKind::Utf8;
                // the reference for each 16-bit search is a lone search on a freshly compiled
                // private object (count-only mode), not its first occurrence in this burst:
                // there is no other op that runs these entry points on their own
                #[cfg(feature = "cfg-utf16")]
                if with16 {
                    let fuel = self.sh.world.knobs.fuel.saturating_mul(10);
                    for j in 0..texts.len() {
                        for kind in 0..2 {
                            let t16 = &texts16[j];
                            let (r, _) = model_mode(fuel, || {
                                let re = compile(spec).ok()?;
                                let v: Vec<String> = if kind == 0 { re.find_from_utf16(t16, 0).take(8).map(|m| fmt_match(&m)).collect() } else { re.find_from_ucs2(t16, 0).take(8).map(|m| fmt_match(&m)).collect() };
                                Some(v.join(","))
                            });
                            if let Ok(Some(s)) = r {
                                first16[j][kind] = Some(s);
                            }
                        }
                    }
                }
                let mut out = None;
                'rounds: for k in 0..*n {
                    for (j, t) in texts.iter().enumerate() {
                        if let Some(c) = sched::cur_ctx() {
                            // fuel is per search, not per burst
                            if !c.model.get() {
                                c.op_steps.set(0);
                            }
                        }
                        let m = open_iter(rx, spec, t, 0).next();
                        let s = match m {
                            Some(m) => fmt_match(&m),
                            None => "None".into(),
                        };
                        match &first[j] {
                            None => first[j] = Some(s),
                            Some(f) => {
                                if *f != s {
                                    out = Some(format!("BurstDiffers(n={};haystack {:?};round 0: {};round {}: {})", n, t, f, k, s));
                                    break 'rounds;
                                }
                            }
                        }
                        #[cfg(feature = "cfg-utf16")]
                        if with16 {
                            for kk in 0..2 {
                                // which encoding goes first alternates
                                let kind = (kk + j + k as usize) % 2;
                                if let Some(c) = sched::cur_ctx() {
                                    if !c.model.get() {
                                        c.op_steps.set(0);
                                    }
                                }
                                // all matches (at most 8), in code units
                                let v: Vec<String> = if kind == 0 { rx.find_from_utf16(&texts16[j], 0).take(8).map(|m| fmt_match(&m)).collect() } else { rx.find_from_ucs2(&texts16[j], 0).take(8).map(|m| fmt_match(&m)).collect() };
                                let s = v.join(",");
                                match &first16[j][kind] {
                                    None => first16[j][kind] = Some(s),
                                    Some(f) => {
                                        if *f != s {
                                            out = Some(format!("BurstDiffers(n={};{} haystack {:?};alone on a fresh object (or first time): {};round {}: {})", n, if kind == 0 { "utf16" } else { "ucs2" }, t, f, k, s));
                                            break 'rounds;
                                        }
                                    }
                                }
                            }
                        }
                    }
                }
                self.stats.bursts += 1;
                #[cfg(feature = "cfg-utf16")]
                let tail16 = if with16 {
                    let mut h = Fnv::default();
                    for f in &first16 {
                        for x in f {
                            h.str(x.as_deref().unwrap_or("-"));
                        }
                    }
                    format!(";u16={:016x};{}", h.0, first16[0][0].clone().unwrap_or_default())
                } else {
                    String::new()
                };
                #[cfg(not(feature = "cfg-utf16"))]
                let tail16 = String::new();
                ArmedOut::Text(out.unwrap_or_else(|| format!("Burst(n={};{} haystacks;first={}{})", n, texts.len(), first[0].clone().unwrap_or_default(), tail16)))
            }
            Armed::Compile(reidx, text) => {
                let spec = self.spec(*reidx);
                self.stats.compile_ops += 1;
                match compile(spec) {
                    Err(e) => {
                        self.stats.compile_errs += 1;
                        ArmedOut::Text(format!("Err({})", e))
                    }
                    Ok(re) => {
                        // compiling is a function of (pattern, flags): a second compile must give
                        // the same program (compared through the derived Debug output)
                        if let Ok(re2) = compile(spec) {
                            let (d1, d2) = (format!("{:?}", re), format!("{:?}", re2));
                            if d1 != d2 {
                                // information only: the property is about results, and a correct
                                // program may legitimately carry an identity or a counter
                                self.stats.compile_debug_differs += 1;
                            }
                        }
                        let m = open_iter(&re, spec, text, 0).next();
                        ArmedOut::Text(format!(
                            "Compiled;{}",
                            match m {
                                Some(m) => fmt_match(&m),
                                None => "None".into(),
                            }
                        ))
                    }
                }
            }
        }
    }
}

// ---------------------------------------------------------------- passes

impl ClientStats {
    pub fn merge(&mut self, o: &ClientStats) {
        self.ops += o.ops;
        self.nexts += o.nexts;
        self.matches += o.matches;
        self.repoll += o.repoll;
        self.resume += o.resume;
        self.sibling_steps += o.sibling_steps;
        self.rewrite += o.rewrite;
        self.clone_ops += o.clone_ops;
        self.clone_while_original_midsearch += o.clone_while_original_midsearch;
        self.cancel_fired += o.cancel_fired;
        self.fuel_fired += o.fuel_fired;
        self.engine_panics += o.engine_panics;
        self.nested += o.nested;
        self.model_unknown += o.model_unknown;
        self.compile_ops += o.compile_ops;
        self.compile_errs += o.compile_errs;
        self.bursts += o.bursts;
        self.closure_panics += o.closure_panics;
        self.adaptors += o.adaptors;
        self.compile_debug_differs += o.compile_debug_differs;
        self.kept_matches_rechecked += o.kept_matches_rechecked;
        self.range_observation_failures += o.range_observation_failures;
        self.iter_histories.extend(o.iter_histories.iter().cloned());
    }
}

struct ThreadOut {
    recs: Vec<OpRec>,
    c09: Vec<C09Viol>,
    stats: ClientStats,
    sites: [u64; NSITES],
    steps: u64,
    ev: u64,
}

fn run_thread(sh: &PassShared, tid: usize) -> ThreadOut {
    let sched_ptr: *const Scheduler = match sh.sched {
        Some(s) => s as *const Scheduler,
        None => std::ptr::null(),
    };
    let ctx = Ctx::new(tid, sched_ptr);
    let mut client = Client::new(sh, tid);
    with_ctx(&ctx, |ctx| client.run_script(ctx));
    // nothing may be left for the thread-local destructors to free after the baton is gone
    LAST_PANIC.with(|p| *p.borrow_mut() = None);
    let Client { recs, c09, stats, .. } = client;
    ThreadOut { recs, c09, stats, sites: ctx.sites_snapshot(), steps: ctx.total_steps.get(), ev: ctx.ev.get() }
}

pub fn run_pass(sh: &PassShared) -> PassRes {
    let n = sh.world.threads.len();
    let mut outs: Vec<Option<ThreadOut>> = (0..n).map(|_| None).collect();
    let mut trace = Vec::new();
    let mut sched_stats = SchedStats::default();
    let mut sched_ev = 0u64;
    match sh.kind {
        PassKind::Fresh => {
            for t in 0..n {
                outs[t] = Some(run_thread(sh, t));
            }
        }
        PassKind::After => {
            for t in (0..n).rev() {
                outs[t] = Some(run_thread(sh, t));
            }
        }
        PassKind::Sim => {
            let sched = sh.sched.expect("Sim pass needs a scheduler");
            std::thread::scope(|scope| {
                let mut hs = Vec::new();
                for t in 0..n {
                    let h = std::thread::Builder::new()
                        .stack_size(1 << 20)
                        .spawn_scoped(scope, move || {
                            sched.wait_turn(t);
                            let out = catch_unwind(AssertUnwindSafe(|| run_thread(sh, t)));
                            sched.finish(t);
                            sched.wait_release(t);
                            match out {
                                Ok(o) => o,
                                Err(_) => sched::harness_fatal("client thread panicked outside an op"),
                            }
                        })
                        .expect("spawn");
                    hs.push(h);
                    // one at a time: thread start-up must not overlap with the next spawn
                    sched.wait_arrived(t + 1);
                }
                sched.start();
                // join only when nobody runs any more (see Scheduler::wait_all_done)
                sched.wait_all_done();
                for (t, h) in hs.into_iter().enumerate() {
                    // thread teardown one at a time, with nothing else running
                    sched.release(t);
                    match h.join() {
                        Ok(o) => outs[t] = Some(o),
                        Err(_) => sched::harness_fatal("client thread join failed"),
                    }
                }
            });
            let (tr, st, ev) = sched.take_results();
            trace = tr;
            sched_stats = st;
            sched_ev = ev;
        }
    }
    let mut res = PassRes {
        recs: Vec::new(),
        c09: Vec::new(),
        stats: ClientStats::default(),
        sites: [0; NSITES],
        steps: 0,
        ev: 0,
        trace,
        sched_stats,
    };
    let mut ev = Fnv::default();
    ev.u64(sched_ev);
    for o in outs.into_iter() {
        let o = o.expect("thread output");
        ev.u64(o.ev);
        for r in &o.recs {
            ev.str(&r.outcome);
            ev.u64(r.steps);
        }
        res.recs.push(o.recs);
        res.c09.extend(o.c09);
        res.stats.merge(&o.stats);
        for i in 0..NSITES {
            res.sites[i] += o.sites[i];
        }
        res.steps += o.steps;
    }
    res.ev = ev.0;
    res
}

// ---------------------------------------------------------------- world execution and oracles

#[derive(Clone, Debug)]
pub struct Violation {
    pub property: &'static str,
    pub clause: String,
    pub pass: u8,
    pub thread: usize,
    pub op: usize,
    pub expected: String,
    pub observed: String,
}

#[derive(Default, Clone, Debug)]
pub struct CmpInfo {
    /// pass-2/3 outcome is a PoisonError panic after the harness unwound a search in that pass
    pub poisoned_after_injected_unwind: u64,
    pub compared: u64,
    pub step_count_divergence: u64,
    pub fault_divergence: u64,
    pub incomparable_dead: u64,
}

pub struct Exec {
    pub viols: Vec<Violation>,
    pub p1: PassRes,
    pub p2: PassRes,
    pub p3: PassRes,
    pub cmp: CmpInfo,
    pub model: ModelStats,
    pub ev: u64,
    pub compile_errs: u64,
}

fn compare(world: &World, a: &PassRes, b: &PassRes, bno: u8, clause: &str, viols: &mut Vec<Violation>, info: &mut CmpInfo) {
    for t in 0..world.threads.len() {
        // after a *relaxed* divergence (fault divergence, poison after an injected unwind) the
        // thread's script state differs between the passes: its later ops are incomparable
        let mut diverged = false;
        for i in 0..world.threads[t].len() {
            let (r1, r2) = (&a.recs[t][i], &b.recs[t][i]);
            if diverged {
                info.incomparable_dead += 1;
                continue;
            }
            if r1.skipped_dead || r2.skipped_dead {
                if r1.skipped_dead != r2.skipped_dead {
                    info.incomparable_dead += 1;
                }
                continue;
            }
            info.compared += 1;
            if r1.fault != r2.fault {
                if r2.fault == Fault::Fuel && r1.fault == Fault::None && r1.steps.saturating_mul(8) + 1000 <= world.knobs.fuel {
                    viols.push(Violation {
                        property: "C19",
                        clause: format!("{}:diverges", clause),
                        pass: bno,
                        thread: t,
                        op: i,
                        expected: format!("{} in {} steps", r1.outcome, r1.steps),
                        observed: format!("OutOfFuel after {} steps", r2.steps),
                    });
                } else if r2.fault == Fault::None && is_poison_after_injected(&r2.outcome) {
                    info.poisoned_after_injected_unwind += 1;
                    diverged = true;
                } else {
                    info.fault_divergence += 1;
                    diverged = true;
                }
                continue;
            }
            if r1.outcome != r2.outcome && is_poison_after_injected(&r2.outcome) {
                // A search unwound by the harness (cancel / fuel) cannot happen in real use: no
                // caller can interrupt next() mid-instruction. If it poisoned a lock that correct
                // code unwrap()s, the later panic is a consequence of the injected fault, not of
                // sharing. Narrow relaxation: only PoisonError panics, only in a pass with an
                // injected unwind.
                info.poisoned_after_injected_unwind += 1;
                diverged = true;
            } else if r1.outcome != r2.outcome {
                viols.push(Violation {
                    property: "C19",
                    clause: clause.to_string(),
                    pass: bno,
                    thread: t,
                    op: i,
                    expected: r1.outcome.clone(),
                    observed: r2.outcome.clone(),
                });
            } else if r1.steps != r2.steps {
                info.step_count_divergence += 1;
            }
        }
    }
}

/// Runs in a pristine grandchild (see pristine.rs): answer one query and return.
pub fn pristine_handler(req: &str) -> String {
    let j = match crate::json::parse(req) {
        Ok(j) => j,
        Err(_) => return "?bad-request".into(),
    };
    sched::install_hook();
    install_panic_hook();
    match j.get("k").and_then(|v| v.as_str()) {
        Some("first") => {
            let spec = RegexSpec {
                pattern: j.get("pattern").and_then(|v| v.as_str()).unwrap_or("").to_string(),
                flags: j.get("flags").and_then(|v| v.as_str()).unwrap_or("").to_string(),
                exec: if j.get("exec").and_then(|v| v.as_str()) == Some("pikevm") { ExecKind::Pike } else { ExecKind::Backtrack },
                input: if j.get("input").and_then(|v| v.as_str()) == Some("ascii") { InputKind::Ascii } else { InputKind::Utf8 },
            };
            let text = j.get("text").and_then(|v| v.as_str()).unwrap_or("").to_string();
            let cursor = j.get("cursor").and_then(|v| v.as_u64()).unwrap_or(0) as usize;
            let fuel = j.get("fuel").and_then(|v| v.as_u64()).unwrap_or(100_000);
            let ctx = Ctx::new(0, std::ptr::null());
            let text_static: &'static str = unsafe { &*(text.as_str() as *const str) };
            with_ctx(&ctx, |_| {
                let (r, _) = model_mode(fuel, || {
                    let re = match compile(&spec) {
                        Ok(re) => re,
                        Err(e) => return Err(e),
                    };
                    let mut it = open_iter(&re, &spec, text_static, cursor);
                    let m = it.next();
                    drop(it);
                    Ok(m)
                });
                match r {
                    Ok(Ok(Some(m))) => fmt_match(&m),
                    Ok(Ok(None)) => "None".into(),
                    Ok(Err(e)) => format!("NoRegex({})", e),
                    Err(None) => "?out-of-fuel".into(),
                    Err(Some(msg)) => format!("Panicked({})", msg),
                }
            })
        }
        Some("op") => {
            let (w, _) = match World::from_json(&j) {
                Ok(x) => x,
                Err(_) => return "?bad-world".into(),
            };
            ONLY_PASS1.store(true, std::sync::atomic::Ordering::Relaxed);
            let e = execute(&w, None);
            match e.p1.recs.first().and_then(|t| t.first()) {
                Some(r) if r.fault == Fault::None => r.outcome.clone(),
                Some(_) => "?fault".into(),
                None => "?no-op".into(),
            }
        }
        _ => "?unknown-kind".into(),
    }
}

/// Number of searches unwound by the harness (cancel / fuel) on *shared* objects in the
/// current world (passes 2 and 3). Such an unwind cannot happen in real use; it can poison a
/// lock that correct code unwrap()s.
use crate::sched::INJECTED_UNWINDS as INJECTED_UNWINDS_SHARED;

fn is_poison_after_injected(outcome: &str) -> bool {
    outcome.starts_with("Panicked(") && outcome.contains("PoisonError") && INJECTED_UNWINDS_SHARED.load(std::sync::atomic::Ordering::Relaxed) > 0
}

/// Crash triage: run only the sequential Fresh pass (passes 2 and 3 are skipped).
pub static ONLY_PASS1: std::sync::atomic::AtomicBool = std::sync::atomic::AtomicBool::new(false);

fn empty_pass(p1: &PassRes) -> PassRes {
    PassRes {
        recs: p1.recs.clone(),
        c09: Vec::new(),
        stats: ClientStats::default(),
        sites: [0; NSITES],
        steps: 0,
        ev: 0,
        trace: Vec::new(),
        sched_stats: SchedStats::default(),
    }
}

pub fn execute(world: &World, explicit: Option<&[Segment]>) -> Exec {
    INJECTED_UNWINDS_SHARED.store(0, std::sync::atomic::Ordering::Relaxed);
    sched::install_hook();
    install_panic_hook();
    let bufs: Vec<HayBuf> = world.hays.iter().map(|h| HayBuf::new(&h.text)).collect();
    let model = Model::new(world);
    let reset = |bufs: &[HayBuf]| {
        for (b, h) in bufs.iter().zip(world.hays.iter()) {
            b.overwrite(&h.text);
        }
    };

    // pass 1: sequential, fresh private objects
    let no_regs: Vec<Result<Arc<Regex>, String>> = Vec::new();
    let p1 = {
        let sh = PassShared { world, kind: PassKind::Fresh, pass_no: 1, regs: &no_regs, bufs: &bufs, model: &model, pass1: None, sched: None };
        run_pass(&sh)
    };

    if ONLY_PASS1.load(std::sync::atomic::Ordering::Relaxed) {
        let (p2, p3) = (empty_pass(&p1), empty_pass(&p1));
        let ms = model.stats.lock().unwrap().clone();
        return Exec { viols: Vec::new(), p1, p2, p3, cmp: CmpInfo::default(), model: ms, ev: 0, compile_errs: 0 };
    }

    // shared objects, compiled once by the world's main thread
    let regs: Vec<Result<Arc<Regex>, String>> = world.regexes.iter().map(|s| compile(s).map(Arc::new)).collect();
    let compile_errs = regs.iter().filter(|r| r.is_err()).count() as u64;

    // pass 2: simulated threads on the shared objects
    // (unwinds injected into the private objects of pass 1 cannot poison anything shared)
    INJECTED_UNWINDS_SHARED.store(0, std::sync::atomic::Ordering::SeqCst);
    reset(&bufs);
    let nops = world.nops() as u64;
    let (strategy, expl) = match explicit {
        Some(e) => (Strategy::Explicit, e.to_vec()),
        None => (world.knobs.strategy.clone(), Vec::new()),
    };
    let sched = Scheduler::new(SchedConfig {
        nthreads: world.threads.len(),
        strategy,
        seed: world.knobs.sched_seed,
        max_switches: world.knobs.max_switches,
        est_dps: p1.steps + nops,
        explicit: expl,
    });
    let p2 = {
        let sh = PassShared { world, kind: PassKind::Sim, pass_no: 2, regs: &regs, bufs: &bufs, model: &model, pass1: Some(&p1), sched: Some(&sched) };
        run_pass(&sh)
    };

    // pass 3: sequential, reverse thread order, same shared objects
    reset(&bufs);
    let p3 = {
        let sh = PassShared { world, kind: PassKind::After, pass_no: 3, regs: &regs, bufs: &bufs, model: &model, pass1: Some(&p1), sched: None };
        run_pass(&sh)
    };

    let mut viols = Vec::new();
    let mut cmp = CmpInfo::default();
    compare(world, &p1, &p2, 2, "pass2!=pass1", &mut viols, &mut cmp);
    compare(world, &p1, &p3, 3, "pass3!=pass1", &mut viols, &mut cmp);
    for p in [&p1, &p2, &p3] {
        for v in &p.c09 {
            viols.push(Violation {
                property: v.property,
                clause: v.clause.to_string(),
                pass: v.pass,
                thread: v.thread,
                op: v.op,
                expected: v.expected.clone(),
                observed: v.observed.clone(),
            });
        }
    }
    for (what, implied, observed) in model.shift_viols.lock().unwrap().iter() {
        viols.push(Violation {
            property: "C09",
            clause: if observed.ends_with("[haystack-extension]") {
                "first-match-inconsistent-under-haystack-extension".into()
            } else if observed.ends_with("[prefilter-free-twin]") {
                "first-match-differs-from-prefilter-free-twin".into()
            } else {
                "first-match-inconsistent-under-cursor-shift".into()
            },
            pass: 0,
            thread: 0,
            op: 0,
            expected: format!("{}: {}", implied, what),
            observed: observed.clone(),
        });
    }
    for (what, pinned, inproc) in model.pinned_viols.lock().unwrap().iter() {
        viols.push(Violation {
            property: "C09",
            clause: "first-at-cursor!=position-pinned-first".into(),
            pass: 0,
            thread: 0,
            op: 0,
            expected: format!("{} (match start pinned by look-behind, searched from 0): {}", pinned, what),
            observed: inproc.clone(),
        });
    }
    for (what, pristine, inproc) in model.pristine_viols.lock().unwrap().iter() {
        viols.push(Violation {
            property: "C19",
            clause: "result-depends-on-process-history".into(),
            pass: 0,
            thread: 0,
            op: 0,
            expected: format!("{} (pristine process): {}", pristine, what),
            observed: inproc.clone(),
        });
    }
    let mut ev = Fnv::default();
    ev.u64(p1.ev);
    ev.u64(p2.ev);
    ev.u64(p3.ev);
    let ms = model.stats.lock().unwrap().clone();
    drop(regs);
    Exec { viols, p1, p2, p3, cmp, model: ms, ev: ev.0, compile_errs }
}
