//! Hook context (per client thread) and the baton scheduler.
//!
//! Every simulated client is a real OS thread, but only the holder of the
//! world's baton runs; all others are parked on their own condvar. The thread to
//! run next is chosen only at decision points (hook calls from inside the
//! engine, op boundaries, thread exit), only by the world's schedule PRNG stream
//! or by an explicit schedule on replay. One seed = one execution.

use crate::rng::{Fnv, Rng};
use std::cell::Cell;
use std::sync::{Condvar, Mutex};
use std::time::Duration;

pub use regress::simhook::site;

/// Payload used to unwind out of the engine from inside the hook.
pub enum SimCancel {
    Cancel,
    Fuel,
}

/// Searches unwound by the harness (cancel / fuel) since the counter was last reset. It is
/// bumped *before* the unwind starts, i.e. before any lock guard of the code under test is
/// dropped (and possibly poisoned).
pub static INJECTED_UNWINDS: std::sync::atomic::AtomicU64 = std::sync::atomic::AtomicU64::new(0);

pub const NSITES: usize = 32;
pub const NO_OBJ: u32 = u32::MAX;

/// Per-thread hook context. Lives on the client thread's stack; a raw pointer to
/// it is parked in a thread-local while the thread is inside a world.
pub struct Ctx {
    pub tid: usize,
    pub armed: Cell<bool>,
    pub op_steps: Cell<u64>,
    pub fuel: Cell<u64>,
    /// 0 = no cancel armed
    pub cancel_at: Cell<u64>,
    pub total_steps: Cell<u64>,
    pub sites: [Cell<u64>; NSITES],
    pub sched: *const Scheduler,
    pub look_depth: Cell<u32>,
    /// object id of the Regex being searched by the current op (NO_OBJ if none)
    pub cur_obj: Cell<u32>,
    pub ev: Cell<u64>,
    /// model mode: count-only, own fuel, no scheduling, no site statistics
    pub model: Cell<bool>,
    pub model_steps: Cell<u64>,
    pub model_fuel: Cell<u64>,
    pub model_total: Cell<u64>,
}

impl Ctx {
    pub fn new(tid: usize, sched: *const Scheduler) -> Ctx {
        Ctx {
            tid,
            armed: Cell::new(false),
            op_steps: Cell::new(0),
            fuel: Cell::new(u64::MAX),
            cancel_at: Cell::new(0),
            total_steps: Cell::new(0),
            sites: std::array::from_fn(|_| Cell::new(0)),
            sched,
            look_depth: Cell::new(0),
            cur_obj: Cell::new(NO_OBJ),
            ev: Cell::new(Fnv::default().0),
            model: Cell::new(false),
            model_steps: Cell::new(0),
            model_fuel: Cell::new(u64::MAX),
            model_total: Cell::new(0),
        }
    }
    pub fn sites_snapshot(&self) -> [u64; NSITES] {
        std::array::from_fn(|i| self.sites[i].get())
    }
}

thread_local! {
    static CTX: Cell<*const Ctx> = const { Cell::new(std::ptr::null()) };
}

/// Install `ctx` as this thread's hook context for the duration of `f`.
/// All mutable fields are Cells: the hook and the op code share `&Ctx`.
pub fn with_ctx<R>(ctx: &Ctx, f: impl FnOnce(&Ctx) -> R) -> R {
    let p = ctx as *const Ctx;
    let prev = CTX.with(|c| c.replace(p));
    struct Restore(*const Ctx);
    impl Drop for Restore {
        fn drop(&mut self) {
            CTX.with(|c| c.set(self.0));
        }
    }
    let _r = Restore(prev);
    f(ctx)
}

/// The current thread's context, if it is inside a world.
pub fn cur_ctx() -> Option<&'static Ctx> {
    let p = CTX.with(|c| c.get());
    if p.is_null() {
        None
    } else {
        // SAFETY: the pointer is only installed by with_ctx for the duration of a call on this thread
        Some(unsafe { &*p })
    }
}

thread_local! {
    // how often the prefilter knob was honoured on this thread (reach probe)
    pub static KNOB_HITS: Cell<u64> = const { Cell::new(0) };
}

/// The process-wide step hook registered with regress.
pub fn hook(site_id: u32, aux: usize) {
    let p = CTX.with(|c| c.get());
    if p.is_null() {
        return;
    }
    let ctx = unsafe { &*p };
    if ctx.model.get() {
        if site_id == 28 {
            // PRED_KNOB_OFF: the library honoured the "skip the prefilter" knob
            KNOB_HITS.with(|k| k.set(k.get() + 1));
        }
        ctx.model_steps.set(ctx.model_steps.get() + 1);
        ctx.model_total.set(ctx.model_total.get() + 1);
        if ctx.model_steps.get() > ctx.model_fuel.get() {
            ctx.model.set(false);
            std::panic::resume_unwind(Box::new(SimCancel::Fuel));
        }
        return;
    }
    if !ctx.armed.get() {
        return;
    }
    let sc = &ctx.sites[(site_id as usize) & (NSITES - 1)];
    sc.set(sc.get() + 1);
    ctx.op_steps.set(ctx.op_steps.get() + 1);
    ctx.total_steps.set(ctx.total_steps.get() + 1);
    let mut ev = Fnv(ctx.ev.get());
    ev.byte(site_id as u8);
    ctx.ev.set(ev.0);
    if site_id == site::LOOK_IN {
        ctx.look_depth.set(ctx.look_depth.get() + 1);
    } else if site_id == site::LOOK_OUT {
        ctx.look_depth.set(ctx.look_depth.get().saturating_sub(1));
    }
    if ctx.op_steps.get() > ctx.fuel.get() {
        ctx.armed.set(false);
        INJECTED_UNWINDS.fetch_add(1, std::sync::atomic::Ordering::SeqCst);
        std::panic::resume_unwind(Box::new(SimCancel::Fuel));
    }
    if ctx.op_steps.get() == ctx.cancel_at.get() {
        ctx.armed.set(false);
        INJECTED_UNWINDS.fetch_add(1, std::sync::atomic::Ordering::SeqCst);
        std::panic::resume_unwind(Box::new(SimCancel::Cancel));
    }
    if !ctx.sched.is_null() {
        let s = unsafe { &*ctx.sched };
        s.decision_point(ctx.tid, site_id, aux, ctx.look_depth.get(), ctx.cur_obj.get());
    }
}

static HOOK_INSTALLED: std::sync::Once = std::sync::Once::new();
pub fn install_hook() {
    HOOK_INSTALLED.call_once(|| {
        regress::simhook::set_step_hook(hook);
    });
}

#[derive(Clone, Debug, PartialEq)]
pub enum Strategy {
    Serial,
    Random { num: u64, den: u64 },
    Pct { depth: u32 },
    Quantum { q: u64 },
    Explicit,
}

impl Strategy {
    pub fn name(&self) -> String {
        match self {
            Strategy::Serial => "serial".into(),
            Strategy::Random { num, den } => format!("random({}/{})", num, den),
            Strategy::Pct { depth } => format!("pct({})", depth),
            Strategy::Quantum { q } => format!("quantum({})", q),
            Strategy::Explicit => "explicit".into(),
        }
    }
    pub fn family(&self) -> &'static str {
        match self {
            Strategy::Serial => "serial",
            Strategy::Random { .. } => "random",
            Strategy::Pct { .. } => "pct",
            Strategy::Quantum { .. } => "quantum",
            Strategy::Explicit => "explicit",
        }
    }
}

#[derive(Clone, Debug, Default)]
pub struct SchedStats {
    pub switches: u64,
    /// switch taken at a hook site (thread left mid-search)
    pub preempt: u64,
    /// ... while another thread was mid-search on the same Regex object
    pub preempt_same_obj: u64,
    pub preempt_in_lookaround: u64,
    pub preempt_bts_nonempty: u64,
    pub preempt_in_report: u64,
    pub preempt_in_compile: u64,
    pub boundary_switch: u64,
    pub forced_switch: u64,
    pub stall: u64,
    pub decision_points: u64,
    pub max_inflight_same_obj: u64,
    /// baton taken away from a thread that blocked on a real lock held by a parked thread
    pub blocked_handoffs: u64,
}

pub type Segment = (u32, u64);

struct State {
    current: usize,
    done: Vec<bool>,
    strategy: Strategy,
    rng: Rng,
    dp_count: u64,
    run_len: u64,
    max_switches: u64,
    trace: Vec<Segment>,
    explicit: Vec<Segment>,
    seg: usize,
    fallback: bool,
    prio: Vec<i64>,
    change_points: Vec<u64>,
    next_low: i64,
    /// Some(obj) while thread is inside a searching op (parked or running)
    midsearch: Vec<u32>,
    /// true while the thread is parked at a hook site (not at an op boundary)
    parked_at_hook: Vec<bool>,
    /// the baton holder went to sleep in the kernel without reaching a decision point: it
    /// is waiting for a real lock held by a parked thread (code under test that holds a
    /// lock across hook points). Blocked threads are not runnable until they show up again.
    blocked: Vec<bool>,
    ktid: Vec<i32>,
    /// client threads that have reached wait_turn
    arrived: usize,
    /// client threads allowed to exit (set by the main thread, one at a time)
    released: Vec<bool>,
    /// the thread is inside the scheduler's own park() (waiting for the baton or for the
    /// scheduler mutex): asleep, but not on a lock of the code under test
    in_sched: Vec<bool>,
    harness_wait: Vec<bool>,
    progress: u64,
    last_progress_seen: u64,
    stall_ticks: u32,
    last_progress_at: std::time::Instant,
    prev_holder: usize,
    stats: SchedStats,
    ev: Fnv,
}

pub struct Scheduler {
    m: Mutex<State>,
    cvs: Vec<Condvar>,
    /// wakes the world's main thread (arrivals, finishes)
    main_cv: Condvar,
    /// set by a client thread while it is queued on the scheduler's own mutex
    entering: Vec<std::sync::atomic::AtomicBool>,
    pub n: usize,
}

const NOBODY: usize = usize::MAX;
const WATCHDOG: Duration = Duration::from_secs(120);
const STALL_TICK: Duration = Duration::from_micros(400);

extern "C" {
    fn syscall(num: i64, ...) -> i64;
}

fn gettid() -> i32 {
    #[cfg(target_arch = "x86_64")]
    const SYS_GETTID: i64 = 186;
    #[cfg(target_arch = "aarch64")]
    const SYS_GETTID: i64 = 178;
    unsafe { syscall(SYS_GETTID) as i32 }
}

/// Kernel scheduling state of one of our threads: Some('S') sleeping, Some('R') running ...
fn thread_state(ktid: i32) -> Option<char> {
    if ktid <= 0 {
        return None;
    }
    // No heap allocation here: this runs on timer ticks of parked threads, i.e. at times the
    // simulator does not control, and the allocator's address sequence must stay a function
    // of the schedule (defects keyed on addresses have to replay).
    extern "C" {
        fn open(path: *const u8, flags: i32, ...) -> i32;
        fn read(fd: i32, buf: *mut u8, n: usize) -> isize;
        fn close(fd: i32) -> i32;
    }
    let mut path = [0u8; 48];
    let prefix = b"/proc/self/task/";
    path[..prefix.len()].copy_from_slice(prefix);
    let mut p = prefix.len();
    let mut digits = [0u8; 12];
    let mut nd = 0;
    let mut v = ktid as u32;
    while v > 0 {
        digits[nd] = b'0' + (v % 10) as u8;
        v /= 10;
        nd += 1;
    }
    for i in (0..nd).rev() {
        path[p] = digits[i];
        p += 1;
    }
    let suffix = b"/stat\0";
    path[p..p + suffix.len()].copy_from_slice(suffix);
    let mut buf = [0u8; 256];
    let n = unsafe {
        let fd = open(path.as_ptr(), 0 /* O_RDONLY */);
        if fd < 0 {
            return None;
        }
        let n = read(fd, buf.as_mut_ptr(), buf.len());
        close(fd);
        n
    };
    if n <= 0 {
        return None;
    }
    let s = &buf[..n as usize];
    let i = s.iter().rposition(|b| *b == b')')?;
    s[i + 1..].iter().find(|b| **b != b' ').map(|b| *b as char)
}

pub struct SchedConfig {
    pub nthreads: usize,
    pub strategy: Strategy,
    pub seed: u64,
    pub max_switches: u64,
    pub est_dps: u64,
    pub explicit: Vec<Segment>,
}

impl Scheduler {
    pub fn new(cfg: SchedConfig) -> Scheduler {
        let n = cfg.nthreads;
        let mut rng = Rng::new(cfg.seed);
        let mut prio: Vec<i64> = (0..n as i64).map(|i| 1000 + i).collect();
        let mut change_points = Vec::new();
        if let Strategy::Pct { depth } = cfg.strategy {
            // random permutation of priorities
            for i in (1..n).rev() {
                let j = rng.usize_below(i + 1);
                prio.swap(i, j);
            }
            let est = cfg.est_dps.max(4);
            for _ in 0..depth {
                change_points.push(1 + rng.below(est));
            }
            change_points.sort();
        }
        Scheduler {
            m: Mutex::new(State {
                current: NOBODY,
                done: vec![false; n],
                strategy: cfg.strategy,
                rng,
                dp_count: 0,
                run_len: 0,
                max_switches: cfg.max_switches,
                trace: Vec::new(),
                explicit: cfg.explicit,
                seg: 0,
                fallback: false,
                prio,
                change_points,
                next_low: 0,
                midsearch: vec![NO_OBJ; n],
                parked_at_hook: vec![false; n],
                blocked: vec![false; n],
                ktid: vec![0; n],
                arrived: 0,
                released: vec![false; n],
                in_sched: vec![true; n],
                harness_wait: vec![false; n],
                progress: 0,
                last_progress_seen: 0,
                stall_ticks: 0,
                last_progress_at: std::time::Instant::now(),
                prev_holder: NOBODY,
                stats: SchedStats::default(),
                ev: Fnv::default(),
            }),
            cvs: (0..n).map(|_| Condvar::new()).collect(),
            main_cv: Condvar::new(),
            entering: (0..n).map(|_| std::sync::atomic::AtomicBool::new(false)).collect(),
            n,
        }
    }

    /// Lock the scheduler state on behalf of client thread `tid`, flagging the wait so that
    /// the stall detector does not mistake "queued on the scheduler mutex" for "blocked on a
    /// lock of the code under test".
    fn lock_as(&self, tid: usize) -> std::sync::MutexGuard<'_, State> {
        use std::sync::atomic::Ordering::SeqCst;
        self.entering[tid].store(true, SeqCst);
        let g = self.lock();
        self.entering[tid].store(false, SeqCst);
        g
    }

    fn lock(&self) -> std::sync::MutexGuard<'_, State> {
        match self.m.lock() {
            Ok(g) => g,
            Err(p) => p.into_inner(),
        }
    }

    /// Called by the world's main thread after spawning all clients.
    pub fn start(&self) {
        let mut g = self.lock();
        let first = g.initial(self.n);
        g.current = first;
        g.run_len = 0;
        g.note_progress();
        drop(g);
        self.cvs[first].notify_one();
    }

    /// Park until this thread holds the baton. While parked, a thread periodically checks
    /// whether the baton holder has fallen asleep in the kernel without reaching a decision
    /// point (it waits for a real lock that a parked thread holds); if so the baton is
    /// taken away from it and given to a runnable thread, so that code which legitimately
    /// serialises searches with a lock can still be scheduled.
    fn park<'a>(&'a self, tid: usize, mut g: std::sync::MutexGuard<'a, State>) -> std::sync::MutexGuard<'a, State> {
        g.in_sched[tid] = true;
        g = self.park_inner(tid, g);
        g.in_sched[tid] = false;
        g
    }

    fn park_inner<'a>(&'a self, tid: usize, mut g: std::sync::MutexGuard<'a, State>) -> std::sync::MutexGuard<'a, State> {
        while g.current != tid {
            // one designated watcher (the thread that handed the baton over) ticks fast
            let tick = if g.prev_holder == tid || g.prev_holder == NOBODY { STALL_TICK } else { Duration::from_millis(20) };
            let (ng, to) = match self.cvs[tid].wait_timeout(g, tick) {
                Ok(x) => x,
                Err(p) => p.into_inner(),
            };
            g = ng;
            if g.current == tid {
                break;
            }
            if to.timed_out() {
                let cur = g.current;
                let cur_entering = cur < self.n && self.entering[cur].load(std::sync::atomic::Ordering::SeqCst);
                if let Some(next) = g.check_stall(self.n, cur_entering) {
                    self.cvs[next].notify_one();
                }
                if g.last_progress_at.elapsed() > WATCHDOG {
                    harness_fatal("watchdog: no thread made progress (deadlock in the code under test, or an unschedulable blocking primitive)");
                }
            }
        }
        g
    }

    /// Block until this thread holds the baton (thread start).
    pub fn wait_turn(&self, tid: usize) {
        let mut g = self.lock_as(tid);
        g.ktid[tid] = gettid();
        g.arrived += 1;
        self.main_cv.notify_all();
        let _g = self.park(tid, g);
    }

    /// World's main thread: wait until `k` client threads have reached their starting line.
    /// Clients are spawned one at a time, so that thread start-up (allocations included)
    /// never overlaps with anything else.
    pub fn wait_arrived(&self, k: usize) {
        let mut g = self.lock();
        while g.arrived < k {
            g = match self.main_cv.wait_timeout(g, Duration::from_millis(50)) {
                Ok(x) => x.0,
                Err(p) => p.into_inner().0,
            };
        }
    }

    /// Client thread, after `finish`: stay parked until the main thread lets this thread go.
    /// Thread teardown (thread-local destructors, the runtime's per-thread bookkeeping) frees
    /// memory; it has to happen while nothing else runs, one thread at a time.
    pub fn wait_release(&self, tid: usize) {
        let mut g = self.lock();
        while !g.released[tid] {
            g = match self.cvs[tid].wait_timeout(g, Duration::from_millis(50)) {
                Ok(x) => x.0,
                Err(p) => p.into_inner().0,
            };
        }
    }

    /// World's main thread: let client `tid` exit (to be followed by joining it).
    pub fn release(&self, tid: usize) {
        let mut g = self.lock();
        g.released[tid] = true;
        drop(g);
        self.cvs[tid].notify_one();
    }

    /// World's main thread: wait until every client has finished its script. Only then are
    /// the threads joined (joining frees per-thread bookkeeping; doing that while a client
    /// still runs would interleave the allocator's address sequence with real time).
    pub fn wait_all_done(&self) {
        let mut g = self.lock();
        while !g.done.iter().all(|d| *d) {
            g = match self.main_cv.wait_timeout(g, Duration::from_millis(50)) {
                Ok(x) => x.0,
                Err(p) => p.into_inner().0,
            };
        }
    }

    /// The calling thread is about to block in a wait owned by the harness (pristine oracle
    /// pipe): that is not a lock of the code under test.
    pub fn set_harness_wait(&self, tid: usize, v: bool) {
        let mut g = self.lock_as(tid);
        g.harness_wait[tid] = v;
        g.note_progress();
    }

    /// How many other threads are parked mid-search on `obj` right now.
    pub fn others_midsearch(&self, tid: usize, obj: u32) -> usize {
        let g = self.lock_as(tid);
        (0..self.n).filter(|&t| t != tid && g.parked_at_hook[t] && g.midsearch[t] == obj).count()
    }

    pub fn set_midsearch(&self, tid: usize, obj: u32) {
        let mut g = self.lock_as(tid);
        g.midsearch[tid] = obj;
    }

    /// A decision point: hook call (site != 0) or op boundary (site == 0).
    pub fn decision_point(&self, tid: usize, site_id: u32, aux: usize, look_depth: u32, obj: u32) {
        let mut g = self.lock_as(tid);
        if g.current != tid {
            // we were presumed blocked on a lock and lost the baton; we are back
            g.blocked[tid] = false;
            g.note_progress();
            if g.current == NOBODY {
                // everyone else finished while we were blocked
                g.current = tid;
                g.run_len = 0;
            }
            g = self.park(tid, g);
        }
        g.note_progress();
        g.dp_count += 1;
        g.run_len += 1;
        g.stats.decision_points += 1;
        let next = g.choose(tid, self.n);
        if next == tid {
            return;
        }
        // take the switch
        let rl = g.run_len;
        g.trace.push((tid as u32, rl));
        g.stats.switches += 1;
        let dpc = g.dp_count;
        g.ev.u64(((tid as u64) << 48) ^ ((next as u64) << 40) ^ dpc);
        if site_id != 0 {
            g.stats.preempt += 1;
            g.parked_at_hook[tid] = true;
            if look_depth > 0 {
                g.stats.preempt_in_lookaround += 1;
            }
            if (site_id == site::BT_INSN || site_id == site::BT_POP) && aux > 1 {
                g.stats.preempt_bts_nonempty += 1;
            }
            if site_id == site::BT_REPORT {
                g.stats.preempt_in_report += 1;
            }
            if (site::COMPILE_PARSED..=site::COMPILE_EMITTED).contains(&site_id) {
                g.stats.preempt_in_compile += 1;
            }
            if obj != NO_OBJ {
                let others = (0..self.n).filter(|&t| t != tid && g.parked_at_hook[t] && g.midsearch[t] == obj).count() as u64;
                if others > 0 {
                    g.stats.preempt_same_obj += 1;
                    if others + 1 > g.stats.max_inflight_same_obj {
                        g.stats.max_inflight_same_obj = others + 1;
                    }
                }
            }
        } else {
            g.stats.boundary_switch += 1;
        }
        g.prev_holder = tid;
        g.current = next;
        g.run_len = 0;
        self.cvs[next].notify_one();
        g = self.park(tid, g);
        g.parked_at_hook[tid] = false;
    }

    /// Thread exit: hand the baton to someone else (forced switch).
    pub fn finish(&self, tid: usize) {
        let mut g = self.lock_as(tid);
        if g.current != tid {
            g.blocked[tid] = false;
            g.note_progress();
            if g.current == NOBODY {
                g.current = tid;
                g.run_len = 0;
            }
            g = self.park(tid, g);
        }
        g.note_progress();
        g.done[tid] = true;
        g.midsearch[tid] = NO_OBJ;
        g.run_len += 1; // exit is a virtual decision point, see replay semantics
        let rl = g.run_len;
        g.trace.push((tid as u32, rl));
        if let Some(next) = g.choose_forced(tid, self.n) {
            g.stats.forced_switch += 1;
            let dpc = g.dp_count;
            g.ev.u64(((tid as u64) << 48) ^ ((next as u64) << 40) ^ dpc ^ (1 << 63));
            g.current = next;
            g.run_len = 0;
            self.cvs[next].notify_one();
        } else {
            g.current = NOBODY;
        }
        self.main_cv.notify_all();
    }

    pub fn take_results(&self) -> (Vec<Segment>, SchedStats, u64) {
        let g = self.lock();
        (g.trace.clone(), g.stats.clone(), g.ev.0)
    }
}

impl State {
    fn runnable(&self, t: usize) -> bool {
        !self.done[t] && !self.blocked[t]
    }

    #[inline]
    fn note_progress(&mut self) {
        self.progress += 1;
    }

    /// Called by a parked thread on a timer tick. If the baton holder is asleep in the kernel
    /// (two ticks in a row, no decision point in between, not in a harness-owned wait), take
    /// the baton away from it. Returns the thread to wake.
    fn check_stall(&mut self, n: usize, holder_entering: bool) -> Option<usize> {
        let b = self.current;
        if b == NOBODY || b >= n {
            return None;
        }
        if self.progress != self.last_progress_seen {
            self.last_progress_seen = self.progress;
            self.last_progress_at = std::time::Instant::now();
            self.stall_ticks = 0;
            return None;
        }
        if self.harness_wait[b] || self.in_sched[b] || holder_entering {
            // asleep in a wait that belongs to the harness (pristine-oracle pipe, or it has not
            // yet come back out of park(): it may be queued on the scheduler mutex this very
            // thread holds) - not a lock of the code under test
            self.stall_ticks = 0;
            return None;
        }
        match thread_state(self.ktid[b]) {
            Some('S') | Some('D') => self.stall_ticks += 1,
            _ => {
                self.stall_ticks = 0;
                return None;
            }
        }
        if self.stall_ticks < 2 {
            return None;
        }
        self.stall_ticks = 0;
        // prefer the thread that handed the baton to b: it most likely holds the lock
        let prev = self.prev_holder;
        let next = if prev < n && prev != b && !self.done[prev] && !self.blocked[prev] {
            Some(prev)
        } else {
            (0..n).find(|&t| t != b && !self.done[t] && !self.blocked[t])
        };
        let next = next?;
        self.blocked[b] = true;
        self.stats.blocked_handoffs += 1;
        let rl = self.run_len;
        self.trace.push((b as u32, rl));
        self.prev_holder = b;
        self.current = next;
        self.run_len = 0;
        self.note_progress();
        Some(next)
    }

    fn initial(&mut self, n: usize) -> usize {
        match self.strategy {
            Strategy::Serial | Strategy::Quantum { .. } => 0,
            Strategy::Random { .. } => self.rng.usize_below(n),
            Strategy::Pct { .. } => (0..n).max_by_key(|&t| self.prio[t]).unwrap_or(0),
            Strategy::Explicit => {
                let t = self.explicit.first().map(|s| s.0 as usize).unwrap_or(0);
                if t < n {
                    t
                } else {
                    self.fallback = true;
                    0
                }
            }
        }
    }

    fn lowest_runnable(&self, n: usize) -> Option<usize> {
        (0..n).find(|&t| self.runnable(t))
    }

    fn choose(&mut self, tid: usize, n: usize) -> usize {
        if let Strategy::Explicit = self.strategy {
            if self.fallback {
                return tid;
            }
            let seg = match self.explicit.get(self.seg) {
                Some(s) => *s,
                None => {
                    self.fallback = true;
                    return tid;
                }
            };
            if seg.0 as usize != tid {
                self.fallback = true;
                return tid;
            }
            if self.run_len >= seg.1 {
                self.seg += 1;
                match self.explicit.get(self.seg) {
                    Some(s) if s.0 as usize == tid => {
                        // merged/edited schedule: same thread continues with a new segment
                        self.run_len = 0;
                        return tid;
                    }
                    Some(s) if (s.0 as usize) < n && self.runnable(s.0 as usize) => return s.0 as usize,
                    _ => {
                        self.fallback = true;
                        return tid;
                    }
                }
            }
            return tid;
        }
        if self.stats.switches >= self.max_switches {
            return tid;
        }
        match self.strategy {
            Strategy::Serial | Strategy::Explicit => tid,
            Strategy::Random { num, den } => {
                if self.rng.chance(num, den) {
                    let others: Vec<usize> = (0..n).filter(|&t| t != tid && self.runnable(t)).collect();
                    if others.is_empty() {
                        tid
                    } else {
                        others[self.rng.usize_below(others.len())]
                    }
                } else {
                    tid
                }
            }
            Strategy::Pct { .. } => {
                while let Some(&cp) = self.change_points.first() {
                    if cp <= self.dp_count {
                        self.change_points.remove(0);
                        self.next_low -= 1;
                        self.prio[tid] = self.next_low;
                        self.stats.stall += 1;
                    } else {
                        break;
                    }
                }
                (0..n).filter(|&t| self.runnable(t)).max_by_key(|&t| self.prio[t]).unwrap_or(tid)
            }
            Strategy::Quantum { q } => {
                if self.run_len >= q {
                    for k in 1..=n {
                        let t = (tid + k) % n;
                        if t != tid && self.runnable(t) {
                            return t;
                        }
                    }
                    tid
                } else {
                    tid
                }
            }
        }
    }

    fn choose_forced(&mut self, tid: usize, n: usize) -> Option<usize> {
        self.lowest_runnable(n)?;
        match self.strategy {
            Strategy::Explicit => {
                if !self.fallback {
                    // advance to the next segment whose thread is runnable
                    let mut i = self.seg + 1;
                    while let Some(s) = self.explicit.get(i) {
                        if (s.0 as usize) < n && self.runnable(s.0 as usize) {
                            self.seg = i;
                            return Some(s.0 as usize);
                        }
                        i += 1;
                    }
                    self.fallback = true;
                }
                self.lowest_runnable(n)
            }
            Strategy::Serial => self.lowest_runnable(n),
            Strategy::Random { .. } => {
                let rs: Vec<usize> = (0..n).filter(|&t| self.runnable(t)).collect();
                Some(rs[self.rng.usize_below(rs.len())])
            }
            Strategy::Pct { .. } => (0..n).filter(|&t| self.runnable(t)).max_by_key(|&t| self.prio[t]),
            Strategy::Quantum { .. } => {
                for k in 1..=n {
                    let t = (tid + k) % n;
                    if self.runnable(t) {
                        return Some(t);
                    }
                }
                None
            }
        }
    }
}

pub fn harness_fatal(msg: &str) -> ! {
    eprintln!("HARNESS-ERROR: {}", msg);
    println!("HARNESS-ERROR: {}", msg);
    std::process::exit(2);
}
