//! Minimal JSON value, writer (stable key order) and parser. Hand-written so the
//! lockfile never needs resolving offline.

use std::fmt::Write;

#[derive(Clone, Debug, PartialEq)]
pub enum J {
    Null,
    Bool(bool),
    Int(i64),
    Num(f64),
    Str(String),
    Arr(Vec<J>),
    Obj(Vec<(String, J)>),
}

impl J {
    pub fn obj() -> J {
        J::Obj(Vec::new())
    }
    pub fn set(mut self, k: &str, v: J) -> J {
        if let J::Obj(ref mut o) = self {
            if let Some(e) = o.iter_mut().find(|(kk, _)| kk == k) {
                e.1 = v;
            } else {
                o.push((k.to_string(), v));
            }
        }
        self
    }
    pub fn put(&mut self, k: &str, v: J) {
        if let J::Obj(ref mut o) = self {
            if let Some(e) = o.iter_mut().find(|(kk, _)| kk == k) {
                e.1 = v;
            } else {
                o.push((k.to_string(), v));
            }
        }
    }
    pub fn get(&self, k: &str) -> Option<&J> {
        match self {
            J::Obj(o) => o.iter().find(|(kk, _)| kk == k).map(|(_, v)| v),
            _ => None,
        }
    }
    pub fn s(v: &str) -> J {
        J::Str(v.to_string())
    }
    pub fn u(v: u64) -> J {
        J::Int(v as i64)
    }
    pub fn as_str(&self) -> Option<&str> {
        match self {
            J::Str(s) => Some(s),
            _ => None,
        }
    }
    pub fn as_u64(&self) -> Option<u64> {
        match self {
            J::Int(i) if *i >= 0 => Some(*i as u64),
            J::Num(f) if *f >= 0.0 => Some(*f as u64),
            _ => None,
        }
    }
    pub fn as_i64(&self) -> Option<i64> {
        match self {
            J::Int(i) => Some(*i),
            J::Num(f) => Some(*f as i64),
            _ => None,
        }
    }
    pub fn as_f64(&self) -> Option<f64> {
        match self {
            J::Int(i) => Some(*i as f64),
            J::Num(f) => Some(*f),
            _ => None,
        }
    }
    pub fn as_bool(&self) -> Option<bool> {
        match self {
            J::Bool(b) => Some(*b),
            _ => None,
        }
    }
    pub fn as_arr(&self) -> Option<&Vec<J>> {
        match self {
            J::Arr(a) => Some(a),
            _ => None,
        }
    }
    pub fn as_obj(&self) -> Option<&Vec<(String, J)>> {
        match self {
            J::Obj(o) => Some(o),
            _ => None,
        }
    }

    pub fn write(&self, out: &mut String) {
        match self {
            J::Null => out.push_str("null"),
            J::Bool(b) => out.push_str(if *b { "true" } else { "false" }),
            J::Int(i) => {
                let _ = write!(out, "{}", i);
            }
            J::Num(f) => {
                if f.is_finite() {
                    let _ = write!(out, "{}", f);
                    if f.fract() == 0.0 && !out.ends_with(|c: char| c == 'e' || c == '.') {
                        // keep it a JSON number either way; integers print without dot
                    }
                } else {
                    out.push_str("null");
                }
            }
            J::Str(s) => write_str(s, out),
            J::Arr(a) => {
                out.push('[');
                for (i, v) in a.iter().enumerate() {
                    if i > 0 {
                        out.push(',');
                    }
                    v.write(out);
                }
                out.push(']');
            }
            J::Obj(o) => {
                out.push('{');
                for (i, (k, v)) in o.iter().enumerate() {
                    if i > 0 {
                        out.push(',');
                    }
                    write_str(k, out);
                    out.push(':');
                    v.write(out);
                }
                out.push('}');
            }
        }
    }

    pub fn to_string(&self) -> String {
        let mut s = String::new();
        self.write(&mut s);
        s
    }

    /// Pretty form: top-level object one key per line (readable replay files).
    pub fn to_pretty(&self) -> String {
        match self {
            J::Obj(o) => {
                let mut s = String::from("{\n");
                for (i, (k, v)) in o.iter().enumerate() {
                    s.push(' ');
                    write_str(k, &mut s);
                    s.push_str(": ");
                    match v {
                        J::Arr(a) if a.len() > 1 && a.iter().any(|e| matches!(e, J::Arr(_) | J::Obj(_) | J::Str(_))) => {
                            s.push_str("[\n");
                            for (j, e) in a.iter().enumerate() {
                                s.push_str("  ");
                                e.write(&mut s);
                                if j + 1 < a.len() {
                                    s.push(',');
                                }
                                s.push('\n');
                            }
                            s.push_str(" ]");
                        }
                        _ => v.write(&mut s),
                    }
                    if i + 1 < o.len() {
                        s.push(',');
                    }
                    s.push('\n');
                }
                s.push_str("}\n");
                s
            }
            _ => self.to_string(),
        }
    }
}

fn write_str(s: &str, out: &mut String) {
    out.push('"');
    for c in s.chars() {
        match c {
            '"' => out.push_str("\\\""),
            '\\' => out.push_str("\\\\"),
            '\n' => out.push_str("\\n"),
            '\r' => out.push_str("\\r"),
            '\t' => out.push_str("\\t"),
            c if (c as u32) < 0x20 || c == '\u{2028}' || c == '\u{2029}' || c == '\u{7f}' => {
                let _ = write!(out, "\\u{:04x}", c as u32);
            }
            c => out.push(c),
        }
    }
    out.push('"');
}

pub fn parse(s: &str) -> Result<J, String> {
    let mut p = P { b: s.as_bytes(), i: 0 };
    p.ws();
    let v = p.value()?;
    p.ws();
    if p.i != p.b.len() {
        return Err(format!("trailing data at byte {}", p.i));
    }
    Ok(v)
}

struct P<'a> {
    b: &'a [u8],
    i: usize,
}

impl<'a> P<'a> {
    fn ws(&mut self) {
        while self.i < self.b.len() && matches!(self.b[self.i], b' ' | b'\n' | b'\r' | b'\t') {
            self.i += 1;
        }
    }
    fn value(&mut self) -> Result<J, String> {
        self.ws();
        if self.i >= self.b.len() {
            return Err("unexpected end".into());
        }
        match self.b[self.i] {
            b'{' => {
                self.i += 1;
                let mut o = Vec::new();
                self.ws();
                if self.peek() == Some(b'}') {
                    self.i += 1;
                    return Ok(J::Obj(o));
                }
                loop {
                    self.ws();
                    let k = self.string()?;
                    self.ws();
                    self.expect(b':')?;
                    let v = self.value()?;
                    o.push((k, v));
                    self.ws();
                    match self.peek() {
                        Some(b',') => self.i += 1,
                        Some(b'}') => {
                            self.i += 1;
                            return Ok(J::Obj(o));
                        }
                        _ => return Err(format!("expected , or }} at {}", self.i)),
                    }
                }
            }
            b'[' => {
                self.i += 1;
                let mut a = Vec::new();
                self.ws();
                if self.peek() == Some(b']') {
                    self.i += 1;
                    return Ok(J::Arr(a));
                }
                loop {
                    let v = self.value()?;
                    a.push(v);
                    self.ws();
                    match self.peek() {
                        Some(b',') => self.i += 1,
                        Some(b']') => {
                            self.i += 1;
                            return Ok(J::Arr(a));
                        }
                        _ => return Err(format!("expected , or ] at {}", self.i)),
                    }
                }
            }
            b'"' => Ok(J::Str(self.string()?)),
            b't' => self.lit("true", J::Bool(true)),
            b'f' => self.lit("false", J::Bool(false)),
            b'n' => self.lit("null", J::Null),
            _ => self.number(),
        }
    }
    fn peek(&self) -> Option<u8> {
        self.b.get(self.i).copied()
    }
    fn expect(&mut self, c: u8) -> Result<(), String> {
        if self.peek() == Some(c) {
            self.i += 1;
            Ok(())
        } else {
            Err(format!("expected {:?} at {}", c as char, self.i))
        }
    }
    fn lit(&mut self, w: &str, v: J) -> Result<J, String> {
        if self.b[self.i..].starts_with(w.as_bytes()) {
            self.i += w.len();
            Ok(v)
        } else {
            Err(format!("bad literal at {}", self.i))
        }
    }
    fn number(&mut self) -> Result<J, String> {
        let st = self.i;
        let mut is_float = false;
        while self.i < self.b.len() {
            match self.b[self.i] {
                b'0'..=b'9' | b'-' | b'+' => {}
                b'.' | b'e' | b'E' => is_float = true,
                _ => break,
            }
            self.i += 1;
        }
        let t = std::str::from_utf8(&self.b[st..self.i]).map_err(|e| e.to_string())?;
        if t.is_empty() {
            return Err(format!("unexpected byte at {}", st));
        }
        if !is_float {
            if let Ok(i) = t.parse::<i64>() {
                return Ok(J::Int(i));
            }
        }
        t.parse::<f64>().map(J::Num).map_err(|e| format!("{} at {}", e, st))
    }
    fn string(&mut self) -> Result<String, String> {
        self.expect(b'"')?;
        let mut out = String::new();
        loop {
            if self.i >= self.b.len() {
                return Err("unterminated string".into());
            }
            let c = self.b[self.i];
            match c {
                b'"' => {
                    self.i += 1;
                    return Ok(out);
                }
                b'\\' => {
                    self.i += 1;
                    let e = *self.b.get(self.i).ok_or("bad escape")?;
                    self.i += 1;
                    match e {
                        b'"' => out.push('"'),
                        b'\\' => out.push('\\'),
                        b'/' => out.push('/'),
                        b'n' => out.push('\n'),
                        b'r' => out.push('\r'),
                        b't' => out.push('\t'),
                        b'b' => out.push('\u{8}'),
                        b'f' => out.push('\u{c}'),
                        b'u' => {
                            let mut cp = self.hex4()?;
                            if (0xD800..0xDC00).contains(&cp) && self.b[self.i..].starts_with(b"\\u") {
                                self.i += 2;
                                let lo = self.hex4()?;
                                cp = 0x10000 + ((cp - 0xD800) << 10) + (lo - 0xDC00);
                            }
                            out.push(char::from_u32(cp).unwrap_or('\u{FFFD}'));
                        }
                        _ => return Err(format!("bad escape at {}", self.i)),
                    }
                }
                _ => {
                    // copy one UTF-8 char
                    let st = self.i;
                    let len = if c < 0x80 {
                        1
                    } else if c >> 5 == 0b110 {
                        2
                    } else if c >> 4 == 0b1110 {
                        3
                    } else {
                        4
                    };
                    self.i += len;
                    out.push_str(std::str::from_utf8(&self.b[st..self.i.min(self.b.len())]).map_err(|e| e.to_string())?);
                }
            }
        }
    }
    fn hex4(&mut self) -> Result<u32, String> {
        if self.i + 4 > self.b.len() {
            return Err("short \\u".into());
        }
        let t = std::str::from_utf8(&self.b[self.i..self.i + 4]).map_err(|e| e.to_string())?;
        self.i += 4;
        u32::from_str_radix(t, 16).map_err(|e| e.to_string())
    }
}

#[cfg(test)]
mod tests {
    use super::*;
    #[test]
    fn roundtrip() {
        let v = J::obj()
            .set("a", J::Int(-3))
            .set("b", J::Arr(vec![J::s("x\n\"é𝒳\u{2028}"), J::Null, J::Bool(true), J::Num(1.5)]))
            .set("c", J::obj().set("k", J::s("")));
        let s = v.to_string();
        assert_eq!(parse(&s).unwrap(), v);
        assert_eq!(parse(&v.to_pretty()).unwrap(), v);
    }
}
