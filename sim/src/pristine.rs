//! Pristine-process oracle.
//!
//! Every in-process reference (the Fresh pass, FIRST) shares the process with the
//! code under test, so state that is process-global or thread-local (a `static`
//! cache, a `thread_local!` scratch) pollutes the reference exactly like the
//! subject. To get a reference with *no history at all*, a "zygote" is forked from
//! the simulator process at start-up, before any regress code has run. For each
//! query the zygote forks a grandchild that compiles the regex, runs the one
//! search, writes the answer to a pipe and exits. The zygote itself never runs
//! regress code, so every grandchild starts from pristine process state.
//!
//! Unix only; the few syscalls are declared by hand (no libc crate offline).

use std::sync::Mutex;

extern "C" {
    fn fork() -> i32;
    fn pipe(fds: *mut i32) -> i32;
    fn read(fd: i32, buf: *mut u8, n: usize) -> isize;
    fn write(fd: i32, buf: *const u8, n: usize) -> isize;
    fn close(fd: i32) -> i32;
    fn waitpid(pid: i32, status: *mut i32, options: i32) -> i32;
    fn _exit(code: i32) -> !;
}

struct Zygote {
    req_w: i32,
    resp_r: i32,
    pid: i32,
}

static ZYGOTE: Mutex<Option<Zygote>> = Mutex::new(None);

fn write_all(fd: i32, mut b: &[u8]) -> bool {
    while !b.is_empty() {
        let n = unsafe { write(fd, b.as_ptr(), b.len()) };
        if n <= 0 {
            return false;
        }
        b = &b[n as usize..];
    }
    true
}

fn read_exact(fd: i32, b: &mut [u8]) -> bool {
    let mut off = 0;
    while off < b.len() {
        let n = unsafe { read(fd, b[off..].as_mut_ptr(), b.len() - off) };
        if n <= 0 {
            return false;
        }
        off += n as usize;
    }
    true
}

fn send_msg(fd: i32, s: &[u8]) -> bool {
    let len = (s.len() as u32).to_le_bytes();
    write_all(fd, &len) && write_all(fd, s)
}

fn recv_msg(fd: i32) -> Option<Vec<u8>> {
    let mut l = [0u8; 4];
    if !read_exact(fd, &mut l) {
        return None;
    }
    let n = u32::from_le_bytes(l) as usize;
    if n > (64 << 20) {
        return None;
    }
    let mut b = vec![0u8; n];
    if !read_exact(fd, &mut b) {
        return None;
    }
    Some(b)
}

/// Fork the zygote. Must be called while the process is still single-threaded and
/// before any regress code has run. `handler` runs in a fresh grandchild per query.
pub fn start(handler: fn(&str) -> String) -> bool {
    let mut g = ZYGOTE.lock().unwrap();
    if g.is_some() {
        return true;
    }
    let mut req = [0i32; 2];
    let mut resp = [0i32; 2];
    unsafe {
        if pipe(req.as_mut_ptr()) != 0 || pipe(resp.as_mut_ptr()) != 0 {
            return false;
        }
    }
    let pid = unsafe { fork() };
    if pid < 0 {
        return false;
    }
    if pid == 0 {
        // ---- zygote: never runs regress code itself
        unsafe {
            close(req[1]);
            close(resp[0]);
        }
        loop {
            let msg = match recv_msg(req[0]) {
                Some(m) => m,
                None => unsafe { _exit(0) },
            };
            let gpid = unsafe { fork() };
            if gpid == 0 {
                // ---- grandchild: pristine process state, one query, exit
                let q = String::from_utf8_lossy(&msg).to_string();
                let ans = std::panic::catch_unwind(|| handler(&q)).unwrap_or_else(|_| "?panic-in-pristine-handler".to_string());
                send_msg(resp[1], ans.as_bytes());
                unsafe { _exit(0) };
            } else if gpid > 0 {
                let mut status = 0i32;
                unsafe { waitpid(gpid, &mut status, 0) };
                let exited_ok = (status & 0x7f) == 0 && ((status >> 8) & 0xff) == 0;
                if !exited_ok {
                    // killed by a signal or non-zero exit before answering
                    send_msg(resp[1], format!("?aborted(status={})", status).as_bytes());
                }
            } else {
                send_msg(resp[1], b"?fork-failed");
            }
        }
    }
    unsafe {
        close(req[0]);
        close(resp[1]);
    }
    *g = Some(Zygote { req_w: req[1], resp_r: resp[0], pid });
    true
}

pub fn available() -> bool {
    ZYGOTE.lock().map(|g| g.is_some()).unwrap_or(false)
}

/// Ask a pristine grandchild. None if there is no zygote or the IPC failed.
/// Answers starting with '?' mean "unknown" (out of fuel, aborted).
pub fn query(req: &str) -> Option<String> {
    let g = ZYGOTE.lock().ok()?;
    let z = g.as_ref()?;
    if !send_msg(z.req_w, req.as_bytes()) {
        return None;
    }
    let b = recv_msg(z.resp_r)?;
    Some(String::from_utf8_lossy(&b).to_string())
}

pub fn stop() {
    if let Ok(mut g) = ZYGOTE.lock() {
        if let Some(z) = g.take() {
            unsafe {
                close(z.req_w);
                close(z.resp_r);
                let mut st = 0i32;
                waitpid(z.pid, &mut st, 0);
            }
        }
    }
}
