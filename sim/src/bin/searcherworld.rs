//! searcherworld (nightly, feature `pattern`): seeded interleavings of the two ends
//! of regress's Pattern-trait searcher and of std's provided methods, checked
//! against the std Searcher tiling contract and against find_iter (C20).
#![feature(pattern)]
#![feature(specialization)]
#![allow(incomplete_features)]

use regress::Regex;
use simcore::driver;
use simcore::gen::{corpus, gen_pattern};
use simcore::json::{self, J};
use simcore::rng::{Fnv, Rng};
use simcore::sched::{self, with_ctx, Ctx, SimCancel};
use simcore::stats::Stats;
use std::collections::HashSet;
use std::io::Write;
use std::panic::{catch_unwind, AssertUnwindSafe};
use std::str::pattern::{Pattern, ReverseSearcher, SearchStep, Searcher};
use std::time::Instant;

/// `Clone` if the searcher type happens to implement it (std's Split / Matches iterators are
/// Clone exactly when the searcher is), otherwise nothing. Needs nightly specialization.
trait TryClone: Sized {
    fn try_clone(&self) -> Option<Self>;
}
impl<T> TryClone for T {
    default fn try_clone(&self) -> Option<Self> {
        None
    }
}
impl<T: Clone> TryClone for T {
    fn try_clone(&self) -> Option<Self> {
        Some(self.clone())
    }
}

/// Does the searcher type claim std's `DoubleEndedSearcher` marker? If it does, std turns
/// Split / Matches / MatchIndices over the pattern into DoubleEndedIterators and slices
/// unchecked on the strength of the claim that the two ends never walk past each other.
trait DeProbe {
    fn claims_double_ended(&self) -> bool;
}
impl<T> DeProbe for T {
    default fn claims_double_ended(&self) -> bool {
        false
    }
}
impl<'a, T: std::str::pattern::DoubleEndedSearcher<'a>> DeProbe for T {
    fn claims_double_ended(&self) -> bool {
        true
    }
}

// ------------------------------------------------------------------ reference searcher
//
// A small executable reference model of the searcher: given the find_iter matches of the
// regex on a haystack it emits the canonical tiling (forward) and the canonical reverse
// tiling (matches last to first), with independent cursors. Running the *same* std consumer
// once with `&Regex` and once with this pattern gives an exact model for every consumer,
// including the reverse ones.

#[derive(Clone)]
struct ModelPat(Vec<(usize, usize)>);

struct ModelSearcher<'a> {
    h: &'a str,
    f: Vec<(usize, usize)>,
    // forward: next match index, covered frontier, done
    fi: usize,
    fpos: usize,
    fdone: bool,
    // backward: matches left (from the end), covered frontier (from the right), done
    bi: usize,
    bpos: usize,
    bdone: bool,
}

impl Pattern for ModelPat {
    type Searcher<'a> = ModelSearcher<'a>;
    fn into_searcher(self, h: &str) -> ModelSearcher<'_> {
        let n = self.0.len();
        ModelSearcher { h, f: self.0, fi: 0, fpos: 0, fdone: false, bi: n, bpos: h.len(), bdone: false }
    }
}

unsafe impl<'a> Searcher<'a> for ModelSearcher<'a> {
    fn haystack(&self) -> &'a str {
        self.h
    }
    fn next(&mut self) -> SearchStep {
        if self.fdone {
            return SearchStep::Done;
        }
        if let Some(&(a, b)) = self.f.get(self.fi) {
            if self.fpos < a {
                let r = SearchStep::Reject(self.fpos, a);
                self.fpos = a;
                return r;
            }
            self.fi += 1;
            self.fpos = b;
            return SearchStep::Match(a, b);
        }
        if self.fpos < self.h.len() {
            let r = SearchStep::Reject(self.fpos, self.h.len());
            self.fpos = self.h.len();
            return r;
        }
        self.fdone = true;
        SearchStep::Done
    }
}

unsafe impl<'a> ReverseSearcher<'a> for ModelSearcher<'a> {
    fn next_back(&mut self) -> SearchStep {
        if self.bdone {
            return SearchStep::Done;
        }
        if self.bi > 0 {
            let (a, b) = self.f[self.bi - 1];
            if b < self.bpos {
                let r = SearchStep::Reject(b, self.bpos);
                self.bpos = b;
                return r;
            }
            self.bi -= 1;
            self.bpos = a;
            return SearchStep::Match(a, b);
        }
        if self.bpos > 0 {
            let r = SearchStep::Reject(0, self.bpos);
            self.bpos = 0;
            return r;
        }
        self.bdone = true;
        SearchStep::Done
    }
}

/// Run one std consumer with a pattern and render the result.
macro_rules! consume {
    ($name:expr, $h:expr, $p:expr) => {{
        let h: &str = $h;
        match $name {
            "find" => format!("{:?}", h.find($p)),
            "contains" => format!("{:?}", h.contains($p)),
            "matches" => format!("{:?}", h.matches($p).collect::<Vec<_>>()),
            "match_indices" => format!("{:?}", h.match_indices($p).collect::<Vec<_>>()),
            "split" => format!("{:?}", h.split($p).collect::<Vec<_>>()),
            "splitn" => format!("{:?}", h.splitn(2, $p).collect::<Vec<_>>()),
            "splitn3" => format!("{:?}", h.splitn(3, $p).collect::<Vec<_>>()),
            "splitn1" => format!("{:?}", h.splitn(1, $p).collect::<Vec<_>>()),
            "rsplitn3" => format!("{:?}", h.rsplitn(3, $p).collect::<Vec<_>>()),
            "replacen2" => format!("{:?}", h.replacen($p, "<>", 2)),
            "replacen0" => format!("{:?}", h.replacen($p, "<>", 0)),
            "split_skip" => format!("{:?}", h.split($p).skip(1).step_by(2).collect::<Vec<_>>()),
            "matches_nth" => format!("{:?}", h.matches($p).nth(1)),
            "rmatches_last" => format!("{:?}", h.rmatches($p).last()),
            "split_count" => format!("{:?}", h.split($p).count()),
            "split_terminator" => format!("{:?}", h.split_terminator($p).collect::<Vec<_>>()),
            "split_inclusive" => format!("{:?}", h.split_inclusive($p).collect::<Vec<_>>()),
            "split_once" => format!("{:?}", h.split_once($p)),
            "replace" => format!("{:?}", h.replace($p, "<>")),
            // a one-byte replacement takes std's ASCII fast path when the pattern claims (through
            // Pattern::as_utf8_pattern) to be a one-byte string; rendered as bytes because the
            // result need not be UTF-8 if that claim is wrong
            "replace1" => format!("{:?}", h.replace($p, "-").as_bytes()),
            "replace_empty" => format!("{:?}", h.replace($p, "").as_bytes()),
            "replacen" => format!("{:?}", h.replacen($p, "<>", 1)),
            "starts_with" => format!("{:?}", h.starts_with($p)),
            "strip_prefix" => format!("{:?}", h.strip_prefix($p)),
            "trim_start_matches" => format!("{:?}", h.trim_start_matches($p)),
            "rfind" => format!("{:?}", h.rfind($p)),
            "rmatches" => format!("{:?}", h.rmatches($p).collect::<Vec<_>>()),
            "rmatch_indices" => format!("{:?}", h.rmatch_indices($p).collect::<Vec<_>>()),
            "rsplit" => format!("{:?}", h.rsplit($p).collect::<Vec<_>>()),
            "rsplitn" => format!("{:?}", h.rsplitn(2, $p).collect::<Vec<_>>()),
            "rsplit_terminator" => format!("{:?}", h.rsplit_terminator($p).collect::<Vec<_>>()),
            "rsplit_once" => format!("{:?}", h.rsplit_once($p)),
            "ends_with" => format!("{:?}", h.ends_with($p)),
            "strip_suffix" => format!("{:?}", h.strip_suffix($p)),
            "trim_end_matches" => format!("{:?}", h.trim_end_matches($p)),
            _ => String::from("?"),
        }
    }};
}

// ------------------------------------------------------------------ world

#[derive(Clone, Debug, PartialEq)]
enum SOp {
    Next,
    NextBack,
    NextMatch,
    NextReject,
    NextMatchBack,
    NextRejectBack,
    Rebuild,
    /// step a SECOND live searcher on the same &Regex over another haystack
    Next2,
    NextBack2,
    /// continue with a clone of the searcher (if the searcher type is Clone): the stream must go on unchanged
    CloneSwap,
    /// call Searcher::haystack()
    Haystack,
    /// from here on the searcher is driven from another thread (if its type is Send): it moves
    /// to a helper thread that has just used a searcher of its own
    Hop,
    Consumer(String),
}

impl SOp {
    fn name(&self) -> String {
        match self {
            SOp::Next => "next".into(),
            SOp::NextBack => "next_back".into(),
            SOp::NextMatch => "next_match".into(),
            SOp::NextReject => "next_reject".into(),
            SOp::NextMatchBack => "next_match_back".into(),
            SOp::NextRejectBack => "next_reject_back".into(),
            SOp::Rebuild => "rebuild".into(),
            SOp::Next2 => "next@2".into(),
            SOp::NextBack2 => "next_back@2".into(),
            SOp::CloneSwap => "clone_swap".into(),
            SOp::Haystack => "haystack".into(),
            SOp::Hop => "hop".into(),
            SOp::Consumer(c) => format!("std:{}", c),
        }
    }
    fn parse(s: &str) -> Option<SOp> {
        Some(match s {
            "next" => SOp::Next,
            "next_back" => SOp::NextBack,
            "next_match" => SOp::NextMatch,
            "next_reject" => SOp::NextReject,
            "next_match_back" => SOp::NextMatchBack,
            "next_reject_back" => SOp::NextRejectBack,
            "rebuild" => SOp::Rebuild,
            "next@2" => SOp::Next2,
            "next_back@2" => SOp::NextBack2,
            "clone_swap" => SOp::CloneSwap,
            "haystack" => SOp::Haystack,
            "hop" => SOp::Hop,
            _ => return s.strip_prefix("std:").map(|c| SOp::Consumer(c.to_string())),
        })
    }
}

const CONSUMERS: &[&str] = &[
    "find", "contains", "matches", "match_indices", "split", "splitn", "split_terminator", "split_inclusive", "replace", "replacen", "starts_with", "strip_prefix", "trim_start_matches",
    "rfind", "rmatches", "rmatch_indices", "rsplit", "rsplitn", "rsplit_terminator", "ends_with", "strip_suffix", "trim_end_matches", "split_once", "rsplit_once",
    "splitn3", "splitn1", "rsplitn3", "replacen2", "replacen0", "split_skip", "matches_nth", "rmatches_last", "split_count",
    "replace1", "replace_empty", "as_utf8_pattern",
];

#[derive(Clone, Debug, PartialEq)]
struct SWorld {
    pattern: String,
    flags: String,
    hay: String,
    /// haystack of the second live searcher (ops next@2 / next_back@2)
    hay2: String,
    script: Vec<SOp>,
    fuel: u64,
    /// big-haystack worlds: only the scripted calls are made, the ends are not drained
    /// (a full backward drain rescans from 0 for every step)
    no_drain: bool,
}

impl SWorld {
    fn to_json(&self) -> J {
        J::obj()
            .set("pattern", J::s(&self.pattern))
            .set("flags", J::s(&self.flags))
            .set("haystack", J::s(&self.hay))
            .set("haystack2", J::s(&self.hay2))
            .set("fuel", J::u(self.fuel))
            .set("no_drain", J::Bool(self.no_drain))
            .set("script", J::Arr(self.script.iter().map(|o| J::s(&o.name())).collect()))
    }
    fn from_json(j: &J) -> Result<SWorld, String> {
        let mut script = Vec::new();
        for o in j.get("script").and_then(|v| v.as_arr()).ok_or("script")? {
            script.push(SOp::parse(o.as_str().ok_or("op")?).ok_or("bad op")?);
        }
        Ok(SWorld {
            pattern: j.get("pattern").and_then(|v| v.as_str()).ok_or("pattern")?.to_string(),
            flags: j.get("flags").and_then(|v| v.as_str()).unwrap_or("").to_string(),
            hay: j.get("haystack").and_then(|v| v.as_str()).ok_or("haystack")?.to_string(),
            hay2: j.get("haystack2").and_then(|v| v.as_str()).unwrap_or("").to_string(),
            script,
            fuel: j.get("fuel").and_then(|v| v.as_u64()).unwrap_or(50_000),
            no_drain: j.get("no_drain").and_then(|v| v.as_bool()).unwrap_or(false),
        })
    }
    fn hash(&self) -> u64 {
        let mut h = Fnv::default();
        h.str(&self.to_json().to_string());
        h.0
    }
}

fn gen_sworld(base: u64, run: u64) -> SWorld {
    let root = Rng::world_root(base, run);
    let mut wl = Rng::stream(root, 1);
    let mut sc = Rng::stream(root, 2);
    let cp = corpus();
    let (flags, pattern) = if wl.chance(1, 3) { gen_pattern(&mut wl, false) } else { cp[wl.usize_below(cp.len())].clone() };
    // 1 in 2500 worlds: a big haystack (17-40 KB) - size thresholds such as tail windows
    if sc.chance(1, 2500) {
        let toks0 = simcore::gen::literal_tokens(&[pattern.as_str()], false);
        let toks: Vec<String> = if toks0.is_empty() { vec!["ab".into(), "12".into(), "\"x\"".into(), "aa".into()] } else { toks0 };
        let fillers = ['x', ' ', '.', '1', 'a', '\n', 'é'];
        let fill = fillers[wl.usize_below(fillers.len())];
        let target = wl.range(17_000, 40_000) as usize;
        let dense = wl.chance(1, 2);
        let mut hay = String::with_capacity(target + 64);
        while hay.len() < target {
            hay.push_str(&toks[wl.usize_below(toks.len())]);
            let gap = if dense {
                wl.below(4) as usize
            } else {
                let k = wl.range(4, 13);
                (1usize << k).saturating_sub(wl.below(6) as usize)
            };
            for _ in 0..gap {
                hay.push(fill);
            }
        }
        let mut script = Vec::new();
        for _ in 0..sc.range(1, 5) {
            script.push(match sc.below(8) {
                0..=3 => SOp::NextBack,
                4 => SOp::Next,
                5 => SOp::Consumer("rfind".into()),
                6 => SOp::Consumer("ends_with".into()),
                _ => SOp::NextMatchBack,
            });
        }
        script.push(SOp::Consumer(["rfind", "find", "strip_suffix", "trim_end_matches"][sc.usize_below(4)].to_string()));
        return SWorld { pattern, flags, hay, hay2: String::new(), script, fuel: 6_000_000, no_drain: true };
    }
    // haystack from the pattern's alphabet plus multi-byte characters
    let mut alpha: Vec<char> = pattern.chars().filter(|c| c.is_alphanumeric() || *c == ' ').collect();
    alpha.extend(alpha.clone());
    alpha.extend(['a', 'b', 'c', '1', '2', ' ', '\n', 'é', 'ß', '𝒳', 'x', '€', '\u{2028}', 'ア']);
    // characters from every UTF-8 lead-byte class and encoding-length edge (0-3 per world)
    let edge = simcore::gen::edge_chars(&mut wl);
    alpha.extend(edge.iter());
    alpha.extend(edge.iter());
    let n = match wl.below(32) {
        0..=2 => 0,
        3..=5 => 1,
        6..=20 => wl.range(2, 6),
        21..=30 => wl.range(5, 16),
        _ => wl.range(17, 80), // size thresholds (rescan windows, SIMD widths)
    };
    let mut toks = simcore::gen::literal_tokens(&[pattern.as_str()], false);
    if let Some(t) = simcore::gen::semantic_token(&mut wl) {
        toks.push(t);
    }
    if pattern.contains("Emoji") {
        for _ in 0..2 {
            toks.push(simcore::gen::SEMANTIC_TOKENS[9 + wl.usize_below(simcore::gen::SEMANTIC_TOKENS.len() - 9)].to_string());
        }
    }
    let hay: String = if n >= 2 && !toks.is_empty() && wl.chance(2, 5) {
        simcore::gen::gen_hay_tokens(&mut wl, &toks, &alpha, n)
    } else {
        (0..n).map(|_| alpha[wl.usize_below(alpha.len())]).collect()
    };
    // a second haystack for a sibling searcher on the same &Regex
    let n2 = wl.below(12);
    let hay2: String = if wl.chance(1, 3) { hay.clone() } else { (0..n2).map(|_| alpha[wl.usize_below(alpha.len())]).collect() };
    // script: the seeded interleaving of the two ends and of the provided methods
    let style = sc.below(10);
    let max_calls = 4 * hay.len() as u64 + 12;
    let ncalls = sc.range(1, max_calls);
    let mut script = Vec::new();
    for _ in 0..ncalls {
        let r = sc.below(100);
        let op = match style {
            0 | 1 => SOp::Next,     // forward only
            2 => SOp::NextBack,     // backward only
            3 => {
                // strict alternation
                if script.len() % 2 == 0 {
                    SOp::Next
                } else {
                    SOp::NextBack
                }
            }
            _ => {
                if r < 34 {
                    SOp::Next
                } else if r < 64 {
                    SOp::NextBack
                } else if r < 72 {
                    SOp::NextMatch
                } else if r < 78 {
                    SOp::NextReject
                } else if r < 85 {
                    SOp::NextMatchBack
                } else if r < 90 {
                    SOp::NextRejectBack
                } else if r < 92 {
                    SOp::Rebuild
                } else if r < 94 {
                    if r % 2 == 0 {
                        SOp::Next2
                    } else {
                        SOp::NextBack2
                    }
                } else if r < 95 {
                    if sc.chance(1, 2) {
                        SOp::CloneSwap
                    } else {
                        SOp::Haystack
                    }
                } else {
                    SOp::Consumer(CONSUMERS[sc.usize_below(CONSUMERS.len())].to_string())
                }
            }
        };
        script.push(op);
    }
    // 1 world in 10: the searcher changes threads somewhere in the script (twice in a quarter
    // of those: there and back)
    if sc.chance(1, 10) {
        let at = sc.usize_below(script.len() + 1);
        script.insert(at, SOp::Hop);
        if sc.chance(1, 4) {
            let at2 = at + 1 + sc.usize_below(script.len() - at);
            script.insert(at2, SOp::Hop);
        }
    }
    // every world also runs a few consumers at the end
    for _ in 0..sc.range(1, 4) {
        script.push(SOp::Consumer(CONSUMERS[sc.usize_below(CONSUMERS.len())].to_string()));
    }
    SWorld { pattern, flags, hay, hay2, script, fuel: 50_000, no_drain: false }
}

// ------------------------------------------------------------------ execution + oracle

#[derive(Clone, Debug)]
struct SViol {
    clause: String,
    detail: String,
    op: usize,
}

#[derive(Clone, Copy, Debug, PartialEq)]
enum Obs {
    Match(usize, usize),
    Reject(usize, usize),
    Done,
    /// provided method skipped an unknown number of steps and returned this match / reject
    SkipMatch(usize, usize),
    SkipReject(usize, usize),
    /// provided method ran the stream dry
    SkipDone,
}

struct DirState {
    forward: bool,
    frontier: usize,
    done: bool,
    steps: usize,
    calls: usize,
    matches: Vec<(usize, usize)>,
    /// a skip-to-reject may have jumped over matches: the match list has holes
    holes: bool,
    /// the stream was run dry inside a provided method: its final frontier is unknown
    unknown_tail: bool,
    log: Vec<Obs>,
}

impl DirState {
    fn new(forward: bool, len: usize) -> DirState {
        DirState { forward, frontier: if forward { 0 } else { len }, done: false, steps: 0, calls: 0, matches: Vec::new(), holes: false, unknown_tail: false, log: Vec::new() }
    }

    fn observe(&mut self, hay: &str, o: Obs) -> Option<(String, String)> {
        let len = hay.len();
        let d = if self.forward { "forward" } else { "backward" };
        self.calls += 1;
        self.log.push(o);
        let (a, b, is_match, skip) = match o {
            Obs::Done => {
                self.done = true;
                return None;
            }
            Obs::SkipDone => {
                // the provided method consumed the rest of the stream; the skipped steps are
                // not observable: the stream went on to the far end, or to wherever it met the
                // other end - how far is unknown
                self.done = true;
                self.unknown_tail = true;
                self.holes = true;
                let _ = len;
                return None;
            }
            Obs::Match(a, b) => (a, b, true, false),
            Obs::Reject(a, b) => (a, b, false, false),
            Obs::SkipMatch(a, b) => (a, b, true, true),
            Obs::SkipReject(a, b) => (a, b, false, true),
        };
        self.steps += 1;
        if self.done {
            return Some((format!("T-{}-step-after-done", d), format!("{:?} after Done", o)));
        }
        if !(a <= b && b <= len) {
            return Some((format!("T-{}-out-of-bounds", d), format!("{:?} with len {}", o, len)));
        }
        if !(hay.is_char_boundary(a) && hay.is_char_boundary(b)) {
            return Some((format!("T-{}-not-char-boundary", d), format!("{:?}", o)));
        }
        let mut v = None;
        if self.forward {
            if a < self.frontier {
                v = Some((format!("T-{}-overlap", d), format!("{:?} starts before the covered frontier {}", o, self.frontier)));
            } else if a > self.frontier && !skip {
                v = Some((format!("T-{}-gap", d), format!("{:?} leaves {}..{} uncovered", o, self.frontier, a)));
            }
            self.frontier = b.max(self.frontier);
        } else {
            if b > self.frontier {
                v = Some((format!("T-{}-overlap", d), format!("{:?} ends after the covered frontier {}", o, self.frontier)));
            } else if b < self.frontier && !skip {
                v = Some((format!("T-{}-gap", d), format!("{:?} leaves {}..{} uncovered", o, b, self.frontier)));
            }
            self.frontier = a.min(self.frontier);
        }
        if is_match {
            self.matches.push((a, b));
        } else if skip {
            self.holes = true;
        }
        if !is_match && a == b && !skip {
            // an empty Reject makes no progress; legal only a bounded number of times (length bound below)
        }
        v
    }
}

struct SExec {
    viols: Vec<SViol>,
    inconclusive: bool,
    compile_err: bool,
    both_dirs_before_done: bool,
    has_empty_match: bool,
    multibyte: bool,
    nmatches: usize,
    steps_fwd: usize,
    steps_bwd: usize,
    consumers: usize,
    rebuilds: usize,
    sibling_steps: usize,
    big_worlds: usize,
    clone_swaps: usize,
    hops: usize,
    remote_calls: usize,
    claims_de: bool,
    sim_steps: u64,
    outcome_hash: u64,
}

fn is_subsequence(needle: &[(usize, usize)], hay: &[(usize, usize)]) -> bool {
    let mut i = 0;
    for h in hay {
        if i < needle.len() && needle[i] == *h {
            i += 1;
        }
    }
    i == needle.len()
}

fn model_split<'a>(h: &'a str, f: &[(usize, usize)]) -> Vec<&'a str> {
    let mut out = Vec::new();
    let mut start = 0;
    for (a, b) in f {
        out.push(&h[start..*a]);
        start = *b;
    }
    out.push(&h[start..]);
    out
}

fn run_consumer(name: &str, re: &Regex, h: &str, f: &[(usize, usize)]) -> Option<(String, String)> {
    let fail = |exp: String, got: String| Some((format!("S-consumer-{}", name), format!("expected {} got {}", exp, got)));
    // exact model: the same std consumer driven by the reference searcher
    {
        let got = consume!(name, h, re);
        let exp = consume!(name, h, ModelPat(f.to_vec()));
        if got != exp && got != "?" {
            let cut = |s: &str| -> String { s.chars().take(160).collect() };
            return fail(format!("{} (same std method over the reference searcher)", cut(&exp)), cut(&got));
        }
    }
    match name {
        "as_utf8_pattern" => {
            // Pattern::as_utf8_pattern is a promise to std: "treat me as this plain string / char"
            // (str::replace acts on it). Whatever it claims must find what find_iter finds.
            use std::str::pattern::Utf8Pattern;
            let claim: Option<Vec<u8>> = match re.as_utf8_pattern() {
                None => None,
                Some(Utf8Pattern::StringPattern(b)) => Some(b.to_vec()),
                Some(Utf8Pattern::CharPattern(c)) => Some(c.to_string().into_bytes()),
            };
            if let Some(b) = claim {
                let hb = h.as_bytes();
                let mut occ: Vec<(usize, usize)> = Vec::new();
                if b.is_empty() {
                    occ = h.char_indices().map(|(i, _)| (i, i)).chain(std::iter::once((h.len(), h.len()))).collect();
                } else {
                    let mut i = 0;
                    while i + b.len() <= hb.len() {
                        if &hb[i..i + b.len()] == b.as_slice() {
                            occ.push((i, i + b.len()));
                            i += b.len();
                        } else {
                            i += 1;
                        }
                    }
                }
                if occ != f {
                    return Some(("U-as_utf8_pattern-claim-disagrees-with-find_iter".into(), format!("as_utf8_pattern() claims the plain byte string {:?}, whose occurrences are {:?}; find_iter gives {:?}", b, occ, f)));
                }
            }
        }
        "find" => {
            let got = h.find(re);
            let exp = f.first().map(|m| m.0);
            if got != exp {
                return fail(format!("{:?}", exp), format!("{:?}", got));
            }
        }
        "contains" => {
            let got = h.contains(re);
            if got == f.is_empty() {
                return fail(format!("{}", !f.is_empty()), format!("{}", got));
            }
        }
        "matches" => {
            let got: Vec<&str> = h.matches(re).collect();
            let exp: Vec<&str> = f.iter().map(|m| &h[m.0..m.1]).collect();
            if got != exp {
                return fail(format!("{:?}", exp), format!("{:?}", got));
            }
        }
        "match_indices" => {
            let got: Vec<(usize, &str)> = h.match_indices(re).collect();
            let exp: Vec<(usize, &str)> = f.iter().map(|m| (m.0, &h[m.0..m.1])).collect();
            if got != exp {
                return fail(format!("{:?}", exp), format!("{:?}", got));
            }
        }
        "split" => {
            let got: Vec<&str> = h.split(re).collect();
            let exp = model_split(h, f);
            if got != exp {
                return fail(format!("{:?}", exp), format!("{:?}", got));
            }
        }
        "splitn" => {
            let got: Vec<&str> = h.splitn(2, re).collect();
            let exp: Vec<&str> = match f.first() {
                Some(m) => vec![&h[..m.0], &h[m.1..]],
                None => vec![h],
            };
            if got != exp {
                return fail(format!("{:?}", exp), format!("{:?}", got));
            }
        }
        "split_terminator" => {
            let got: Vec<&str> = h.split_terminator(re).collect();
            let mut exp = model_split(h, f);
            if exp.last().map(|s| s.is_empty()).unwrap_or(false) {
                exp.pop();
            }
            if got != exp {
                return fail(format!("{:?}", exp), format!("{:?}", got));
            }
        }
        "split_inclusive" => {
            let got: Vec<&str> = h.split_inclusive(re).collect();
            let mut exp = Vec::new();
            let mut start = 0;
            for (_, b) in f {
                exp.push(&h[start..*b]);
                start = *b;
            }
            if start < h.len() {
                exp.push(&h[start..]);
            }
            if got != exp {
                return fail(format!("{:?}", exp), format!("{:?}", got));
            }
        }
        "replace" => {
            let got = h.replace(re, "<>");
            let exp = model_split(h, f).join("<>");
            if got != exp {
                return fail(format!("{:?}", exp), format!("{:?}", got));
            }
        }
        "replacen" => {
            let got = h.replacen(re, "<>", 1);
            let exp = match f.first() {
                Some(m) => format!("{}<>{}", &h[..m.0], &h[m.1..]),
                None => h.to_string(),
            };
            if got != exp {
                return fail(format!("{:?}", exp), format!("{:?}", got));
            }
        }
        "starts_with" => {
            let got = h.starts_with(re);
            let exp = f.first().map(|m| m.0 == 0).unwrap_or(false);
            if got != exp {
                return fail(format!("{}", exp), format!("{}", got));
            }
        }
        "strip_prefix" => {
            let got = h.strip_prefix(re);
            let exp = match f.first() {
                Some(m) if m.0 == 0 => Some(&h[m.1..]),
                _ => None,
            };
            if got != exp {
                return fail(format!("{:?}", exp), format!("{:?}", got));
            }
        }
        "trim_start_matches" => {
            let got = h.trim_start_matches(re);
            let mut pos = 0;
            for (a, b) in f {
                if *a == pos {
                    pos = *b;
                } else {
                    break;
                }
            }
            let exp = &h[pos..];
            if got != exp {
                return fail(format!("{:?}", exp), format!("{:?}", got));
            }
        }
        // reverse forms: the property does not fix which matches a reverse search reports, so
        // only consistency (a reported piece is a real match / pieces reassemble) is checked
        "rfind" => {
            let got = h.rfind(re);
            let exp = f.last().map(|m| m.0);
            if got != exp {
                return fail(format!("{:?} (start of the last find_iter match)", exp), format!("{:?}", got));
            }
        }
        "rmatches" | "rmatch_indices" => {
            let got: Vec<(usize, &str)> = h.rmatch_indices(re).collect();
            let exp: Vec<(usize, &str)> = f.iter().rev().map(|m| (m.0, &h[m.0..m.1])).collect();
            if got != exp {
                return fail(format!("{:?} (find_iter matches, last to first)", &exp[..exp.len().min(6)]), format!("{:?}", &got[..got.len().min(6)]));
            }
            let mut prev = h.len() + 1;
            for (a, s) in &got {
                if a + s.len() > prev.min(h.len()) && prev <= h.len() {
                    return fail("non-overlapping, right to left".into(), format!("{:?}", got));
                }
                if re.find_from(h, *a).next().map(|m| m.start()) != Some(*a) {
                    return fail("every piece is a match".into(), format!("{:?}", got));
                }
                prev = *a;
            }
            if got.is_empty() != f.is_empty() {
                return fail(format!("empty={}", f.is_empty()), format!("{:?}", got));
            }
        }
        "rsplit" | "rsplitn" | "rsplit_terminator" => {
            let got: Vec<&str> = match name {
                "rsplit" => h.rsplit(re).collect(),
                "rsplitn" => h.rsplitn(2, re).collect(),
                _ => h.rsplit_terminator(re).collect(),
            };
            // pieces are subslices of h, right to left, non-overlapping
            let base = h.as_ptr() as usize;
            let mut prev = h.len();
            for s in &got {
                let a = s.as_ptr() as usize - base;
                if a + s.len() > prev {
                    return fail("pieces right to left, non-overlapping".into(), format!("{:?}", got));
                }
                prev = a;
            }
        }
        "ends_with" | "strip_suffix" => {
            let e = h.ends_with(re);
            let s = h.strip_suffix(re);
            if s.is_some() && !e {
                return fail("strip_suffix implies ends_with".into(), format!("ends_with={} strip_suffix={:?}", e, s));
            }
            if let Some(rest) = s {
                if !h.starts_with(rest) {
                    return fail("a prefix of the haystack".into(), format!("{:?}", rest));
                }
            }
        }
        "trim_end_matches" => {
            let got = h.trim_end_matches(re);
            if !h.starts_with(got) {
                return fail("a prefix of the haystack".into(), format!("{:?}", got));
            }
        }
        _ => {}
    }
    None
}

fn step_to_obs(s: SearchStep) -> Obs {
    match s {
        SearchStep::Match(a, b) => Obs::Match(a, b),
        SearchStep::Reject(a, b) => Obs::Reject(a, b),
        SearchStep::Done => Obs::Done,
    }
}

thread_local! {
    /// set per world: the searcher type claims DoubleEndedSearcher, so independent coverage is not acceptable
    static DE_CLAIMED: std::cell::Cell<bool> = const { std::cell::Cell::new(false) };
}

fn finish_searcher(w: &SWorld, f: &[(usize, usize)], fw: &DirState, bw: &DirState, drained: bool, viols: &mut Vec<SViol>, op: usize) {
    let len = w.hay.len();
    let bound = 4 * len + 8;
    for d in [fw, bw] {
        if d.steps > bound {
            viols.push(SViol { clause: format!("T-{}-stream-too-long", if d.forward { "forward" } else { "backward" }), detail: format!("{} steps > {}", d.steps, bound), op });
        }
    }
    // (M) forward Match steps are find_iter matches, in order
    if !fw.matches.is_empty() || (fw.done && bw.calls == 0) {
        let ok = if fw.holes { is_subsequence(&fw.matches, f) } else { f.starts_with(&fw.matches) };
        if !ok {
            viols.push(SViol { clause: "M-forward-matches!=find_iter".into(), detail: format!("forward Match steps {:?} vs find_iter {:?}", fw.matches, f), op });
        } else if fw.done && bw.calls == 0 && !fw.holes && fw.matches.len() != f.len() {
            viols.push(SViol { clause: "M-forward-matches!=find_iter".into(), detail: format!("forward Match steps {:?} vs find_iter {:?} (stream Done)", fw.matches, f), op });
        }
    }
    // (R) backward Match steps are the find_iter matches taken last to first. The property
    // text only says the reverse forms are "correct"; the reference adopted here is the
    // implementation's own stated intent (find_last_match_before: "find all matches up to the
    // given position and return the last one"), which is also what makes rmatches the
    // reverse of matches. A redesign to true right-to-left matching would have to revisit
    // this clause; until then a reverse stream that depends on haystack size or window
    // alignment is reported.
    if !bw.matches.is_empty() {
        let rev: Vec<(usize, usize)> = f.iter().rev().cloned().collect();
        let ok = if bw.holes { is_subsequence(&bw.matches, &rev) } else { rev.starts_with(&bw.matches) };
        if !ok {
            viols.push(SViol { clause: "R-backward-matches!=reversed-find_iter".into(), detail: format!("backward Match steps {:?} vs find_iter reversed {:?}", &bw.matches[..bw.matches.len().min(6)], &rev[..rev.len().min(6)]), op });
        }
    }
    if drained && fw.done && bw.done {
        // coverage: two independent full tilings, or the two ends met exactly
        let independent = !DE_CLAIMED.with(|c| c.get()) && (fw.frontier == len || fw.unknown_tail) && (bw.frontier == 0 || bw.unknown_tail);
        let met = if !fw.unknown_tail && !bw.unknown_tail { fw.frontier == bw.frontier } else { bw.frontier >= fw.frontier };
        if !(independent || met) {
            viols.push(SViol {
                clause: "T-incomplete-coverage".into(),
                detail: format!("after Done on both ends: forward covered 0..{}, backward covered {}..{} (len {})", fw.frontier, bw.frontier, len, len),
                op,
            });
        }
    } else if fw.done && bw.calls == 0 && fw.frontier != len && !fw.unknown_tail {
        viols.push(SViol { clause: "T-forward-incomplete".into(), detail: format!("Done with only 0..{} of 0..{} covered", fw.frontier, len), op });
    } else if bw.done && fw.calls == 0 && bw.frontier != 0 && !bw.unknown_tail {
        viols.push(SViol { clause: "T-backward-incomplete".into(), detail: format!("Done with only {}..{} covered", bw.frontier, len), op });
    }
}

// ------------------------------------------------------------------ helper threads (Hop)

struct SendPtr<T: ?Sized>(*mut T);
unsafe impl<T: ?Sized> Send for SendPtr<T> {}

/// A thread that executes closures handed to it one at a time while the caller waits: the
/// world stays sequential (one thread runs at any time), only *which* OS thread drives the
/// searcher changes - and with it every thread-local the library may keep.
struct Helper {
    tx: Option<std::sync::mpsc::Sender<Box<dyn FnOnce() + Send + 'static>>>,
    done: std::sync::mpsc::Receiver<()>,
    handle: Option<std::thread::JoinHandle<()>>,
}

impl Helper {
    fn new(tid: usize) -> Helper {
        let (tx, rx) = std::sync::mpsc::channel::<Box<dyn FnOnce() + Send + 'static>>();
        let (dtx, drx) = std::sync::mpsc::channel::<()>();
        let handle = std::thread::Builder::new()
            .stack_size(4 << 20)
            .spawn(move || {
                let ctx = Ctx::new(tid, std::ptr::null());
                with_ctx(&ctx, |_| {
                    for job in rx {
                        job();
                        let _ = dtx.send(());
                    }
                });
            })
            .expect("spawn helper");
        Helper { tx: Some(tx), done: drx, handle: Some(handle) }
    }

    /// Run `f` on the helper thread and wait for it. The borrow is handed over as a raw
    /// pointer: sound because this call does not return before the job has finished.
    fn run(&self, f: &mut (dyn FnMut() + Send)) {
        let p = SendPtr(f as *mut (dyn FnMut() + Send));
        let job: Box<dyn FnOnce() + Send + '_> = Box::new(move || {
            let p = p;
            unsafe { (*p.0)() }
        });
        let job: Box<dyn FnOnce() + Send + 'static> = unsafe { std::mem::transmute(job) };
        if self.tx.as_ref().expect("helper alive").send(job).is_err() || self.done.recv().is_err() {
            sched::harness_fatal("helper thread died");
        }
    }
}

impl Drop for Helper {
    fn drop(&mut self) {
        self.tx = None;
        if let Some(h) = self.handle.take() {
            let _ = h.join();
        }
    }
}

/// Arm the current thread's hook context for one section of library code.
fn armed_here(fuel: u64, f: &mut dyn FnMut()) -> Result<(), bool> {
    let ctx = sched::cur_ctx().expect("hook context installed");
    ctx.op_steps.set(0);
    ctx.fuel.set(fuel);
    ctx.cancel_at.set(0);
    ctx.armed.set(true);
    let r = catch_unwind(AssertUnwindSafe(|| f()));
    ctx.armed.set(false);
    match r {
        Ok(()) => Ok(()),
        Err(p) => Err(p.is::<SimCancel>()),
    }
}

/// Run a section either here or on a helper thread. Going elsewhere needs the closure - i.e.
/// the searcher it borrows - to be Send; if the searcher type is not Send (nothing in the
/// property demands it) the section silently stays on this thread (counted: `remote_calls`).
trait Dispatch {
    fn dispatch(&mut self, helper: Option<&Helper>, fuel: u64, remote: &mut usize) -> Result<(), bool>;
}
impl<F: FnMut()> Dispatch for F {
    default fn dispatch(&mut self, _helper: Option<&Helper>, fuel: u64, _remote: &mut usize) -> Result<(), bool> {
        armed_here(fuel, self)
    }
}
impl<F: FnMut() + Send> Dispatch for F {
    fn dispatch(&mut self, helper: Option<&Helper>, fuel: u64, remote: &mut usize) -> Result<(), bool> {
        match helper {
            None => armed_here(fuel, self),
            Some(h) => {
                *remote += 1;
                let mut res: Result<(), bool> = Ok(());
                h.run(&mut || res = armed_here(fuel, self));
                res
            }
        }
    }
}

fn exec_sworld(w: &SWorld) -> SExec {
    sched::install_hook();
    simcore::run::install_panic_hook();
    let mut ex = SExec {
        viols: Vec::new(),
        inconclusive: false,
        compile_err: false,
        both_dirs_before_done: false,
        has_empty_match: false,
        multibyte: !w.hay.is_ascii(),
        nmatches: 0,
        steps_fwd: 0,
        steps_bwd: 0,
        consumers: 0,
        rebuilds: 0,
        sibling_steps: 0,
        big_worlds: 0,
        clone_swaps: 0,
        hops: 0,
        remote_calls: 0,
        claims_de: false,
        sim_steps: 0,
        outcome_hash: 0,
    };
    let re = match Regex::with_flags(&w.pattern, w.flags.as_str()) {
        Ok(r) => r,
        Err(_) => {
            ex.compile_err = true;
            return ex;
        }
    };
    let ctx = Ctx::new(0, std::ptr::null());
    let h: &str = &w.hay;
    let mut oh = Fnv::default();
    let r = with_ctx(&ctx, |ctx| {
        // every armed section gets the world's fuel; running dry makes the world inconclusive
        let _ = ctx;
        let mut remote = 0usize;
        // reference: find_iter
        let mut f: Vec<(usize, usize)> = Vec::new();
        if let Err(fuel) = armed_here(w.fuel, &mut || {
            f = re.find_iter(h).map(|m| (m.start(), m.end())).collect();
        }) {
            return Err(fuel);
        }
        ex.nmatches = f.len();
        ex.has_empty_match = f.iter().any(|m| m.0 == m.1);
        let len = h.len();
        // Hop worlds: two helper threads; the searcher is created and first driven on A, later
        // on B (which has used a searcher of its own by then). All other worlds: this thread.
        let hop_world = w.script.iter().any(|o| matches!(o, SOp::Hop));
        let helper_a = if hop_world { Some(Helper::new(1)) } else { None };
        let helper_b = if hop_world { Some(Helper::new(2)) } else { None };
        let mut cur: Option<&Helper> = helper_a.as_ref();
        let mut on_b = false;
        let mut b_warm = false;
        let mut searcher_slot = None;
        {
            let mut mk = || searcher_slot = Some((&re).into_searcher(h));
            if let Err(fuel) = mk.dispatch(cur, w.fuel, &mut remote) {
                return Err(fuel);
            }
        }
        let mut searcher = searcher_slot.expect("searcher created");
        let claims_de = searcher.claims_double_ended();
        ex.claims_de = claims_de;
        DE_CLAIMED.with(|c| c.set(claims_de && len > 0));
        let mut fw = DirState::new(true, len);
        let mut bw = DirState::new(false, len);
        // sibling searcher: its own haystack, its own reference
        let h2: &str = &w.hay2;
        let mut f2: Vec<(usize, usize)> = Vec::new();
        let uses2 = w.script.iter().any(|o| matches!(o, SOp::Next2 | SOp::NextBack2));
        if uses2 {
            if let Err(fuel) = armed_here(w.fuel, &mut || {
                f2 = re.find_iter(h2).map(|m| (m.start(), m.end())).collect();
            }) {
                return Err(fuel);
            }
        }
        let mut searcher2 = (&re).into_searcher(h2);
        let mut fw2 = DirState::new(true, h2.len());
        let mut bw2 = DirState::new(false, h2.len());
        for (i, op) in w.script.iter().enumerate() {
            let mut obs: Option<(bool, Obs)> = None;
            let mut obs2: Option<(bool, Obs)> = None;
            let mut cloned = false;
            let mut hay_ok = true;
            let mut cons: Option<Option<(String, String)>> = None;
            if let SOp::Hop = op {
                ex.hops += 1;
                if on_b {
                    cur = helper_a.as_ref();
                    on_b = false;
                } else {
                    cur = helper_b.as_ref();
                    on_b = true;
                    if !b_warm {
                        // B has a searcher of its own (same &Regex, other haystack) and has used both
                        // of its ends: whatever the library keeps per thread now belongs to that one
                        b_warm = true;
                        let h2w: &str = &w.hay2;
                        let mut wu = || {
                            let mut own = (&re).into_searcher(h2w);
                            let _ = own.next_back();
                            let _ = own.next();
                        };
                        if let Err(true) = wu.dispatch(cur, w.fuel, &mut remote) {
                            return Err(true);
                        }
                    }
                }
                continue;
            }
            let mut job = || match op {
                SOp::Next => obs = Some((true, step_to_obs(searcher.next()))),
                SOp::NextBack => obs = Some((false, step_to_obs(searcher.next_back()))),
                SOp::NextMatch => {
                    obs = Some((true, match searcher.next_match() {
                        Some((a, b)) => Obs::SkipMatch(a, b),
                        None => Obs::SkipDone,
                    }))
                }
                SOp::NextReject => {
                    obs = Some((true, match searcher.next_reject() {
                        Some((a, b)) => Obs::SkipReject(a, b),
                        None => Obs::SkipDone,
                    }))
                }
                SOp::NextMatchBack => {
                    obs = Some((false, match searcher.next_match_back() {
                        Some((a, b)) => Obs::SkipMatch(a, b),
                        None => Obs::SkipDone,
                    }))
                }
                SOp::NextRejectBack => {
                    obs = Some((false, match searcher.next_reject_back() {
                        Some((a, b)) => Obs::SkipReject(a, b),
                        None => Obs::SkipDone,
                    }))
                }
                SOp::Rebuild => {}
                SOp::CloneSwap => {
                    if let Some(c) = searcher.try_clone() {
                        searcher = c;
                        cloned = true;
                    }
                }
                SOp::Haystack => {
                    hay_ok = searcher.haystack() == h && searcher.haystack().as_ptr() == h.as_ptr();
                }
                SOp::Next2 => obs2 = Some((true, step_to_obs(searcher2.next()))),
                SOp::NextBack2 => obs2 = Some((false, step_to_obs(searcher2.next_back()))),
                SOp::Hop => {}
                SOp::Consumer(c) => cons = Some(run_consumer(c, &re, h, &f)),
            };
            let res = job.dispatch(cur, w.fuel, &mut remote);
            match res {
                Err(true) => return Err(true),
                Err(false) => {
                    ex.viols.push(SViol { clause: format!("S-panic-in-{}", op.name().replace("std:", "consumer-")), detail: "panic while stepping the searcher / running a std consumer".into(), op: i });
                    return Ok(());
                }
                Ok(()) => {}
            }
            if cloned {
                ex.clone_swaps += 1;
            }
            if !hay_ok {
                ex.viols.push(SViol { clause: "S-haystack-accessor".into(), detail: "Searcher::haystack() does not return the haystack".into(), op: i });
            }
            if let SOp::Rebuild = op {
                // restart fault: a searcher has no resumable cursor; a rebuilt one replays from scratch
                finish_searcher(w, &f, &fw, &bw, false, &mut ex.viols, i);
                ex.steps_fwd += fw.steps;
                ex.steps_bwd += bw.steps;
                searcher = (&re).into_searcher(h);
                fw = DirState::new(true, len);
                bw = DirState::new(false, len);
                ex.rebuilds += 1;
                continue;
            }
            if let Some(c) = cons {
                ex.consumers += 1;
                if let Some((clause, detail)) = c {
                    ex.viols.push(SViol { clause, detail, op: i });
                }
                continue;
            }
            if let Some((forward, o)) = obs2 {
                oh.str(&format!("2:{:?}", o));
                ex.sibling_steps += 1;
                let d = if forward { &mut fw2 } else { &mut bw2 };
                if let Some((clause, detail)) = d.observe(h2, o) {
                    ex.viols.push(SViol { clause: format!("{}@sibling", clause), detail, op: i });
                }
            }
            if let Some((forward, o)) = obs {
                oh.str(&format!("{:?}", o));
                let d = if forward { &mut fw } else { &mut bw };
                if let Some((clause, detail)) = d.observe(h, o) {
                    ex.viols.push(SViol { clause, detail, op: i });
                }
                // a forward Reject must not swallow a find_iter match: forward Match steps have
                // to be exactly find_iter, so Reject regions are disjoint from every match
                if forward {
                    if let Obs::Reject(a, b) | Obs::SkipReject(a, b) = o {
                        if let Some(m) = f.iter().find(|(s, e)| if s == e { a < *s && *s < b } else { *s < b && a < *e }) {
                            ex.viols.push(SViol { clause: "M-forward-reject-covers-a-match".into(), detail: format!("{:?} overlaps the find_iter match {:?}", o, m), op: i });
                        }
                    }
                }
                // backward Match steps must be places where the regex matches
                if !forward {
                    if let Obs::Match(a, _) | Obs::SkipMatch(a, _) = o {
                        if a <= len && h.is_char_boundary(a) {
                            let mut ok = true;
                            let _ = armed_here(w.fuel, &mut || {
                                ok = re.find_from(h, a).next().map(|m| m.start()) == Some(a);
                            });
                            if !ok {
                                ex.viols.push(SViol { clause: "B-backward-match-is-not-a-match".into(), detail: format!("{:?}: the regex does not match at {}", o, a), op: i });
                            }
                        }
                    }
                }
                if fw.calls > 0 && bw.calls > 0 && !(fw.done && fw.calls == 1) && !(bw.done && bw.calls == 1) {
                    ex.both_dirs_before_done = true;
                }
                if claims_de && fw.frontier > bw.frontier && !fw.unknown_tail && !bw.unknown_tail {
                    ex.viols.push(SViol {
                        clause: "D-double-ended-claimed-but-ends-cross".into(),
                        detail: format!("the searcher implements DoubleEndedSearcher, but the forward end has covered 0..{} and the backward end {}..{}: std's double-ended Split/Matches slice unchecked on the promise that the ends never pass each other", fw.frontier, bw.frontier, len),
                        op: i,
                    });
                }
            }
            if !ex.viols.is_empty() {
                break;
            }
        }
        // drain: "until Done" on both ends
        if ex.viols.is_empty() && w.no_drain {
            finish_searcher(w, &f, &fw, &bw, false, &mut ex.viols, w.script.len());
            ex.big_worlds += 1;
        }
        if ex.viols.is_empty() && !w.no_drain {
            let bound = 4 * len + 12;
            let mut drain_job = || {
                let mut n = 0;
                while !fw.done && n < bound {
                    let o = step_to_obs(searcher.next());
                    if let Some((clause, detail)) = fw.observe(h, o) {
                        ex.viols.push(SViol { clause, detail, op: w.script.len() });
                        return;
                    }
                    n += 1;
                }
                // Done must be absorbing
                for _ in 0..2 {
                    let o = step_to_obs(searcher.next());
                    if let Some((clause, detail)) = fw.observe(h, o) {
                        ex.viols.push(SViol { clause, detail, op: w.script.len() });
                        return;
                    }
                }
                n = 0;
                while !bw.done && n < bound {
                    let o = step_to_obs(searcher.next_back());
                    if let Some((clause, detail)) = bw.observe(h, o) {
                        ex.viols.push(SViol { clause, detail, op: w.script.len() });
                        return;
                    }
                    n += 1;
                }
                for _ in 0..2 {
                    let o = step_to_obs(searcher.next_back());
                    if let Some((clause, detail)) = bw.observe(h, o) {
                        ex.viols.push(SViol { clause, detail, op: w.script.len() });
                        return;
                    }
                }
            };
            let res = drain_job.dispatch(cur, w.fuel, &mut remote);
            match res {
                Err(true) => return Err(true),
                Err(false) => {
                    ex.viols.push(SViol { clause: "S-panic-in-drain".into(), detail: "panic while draining the searcher".into(), op: w.script.len() });
                    return Ok(());
                }
                Ok(()) => {}
            }
            if ex.viols.is_empty() {
                for o in fw.log.iter() {
                    if let Obs::Reject(a, b) | Obs::SkipReject(a, b) = *o {
                        if let Some(m) = f.iter().find(|(s, e)| if s == e { a < *s && *s < b } else { *s < b && a < *e }) {
                            ex.viols.push(SViol { clause: "M-forward-reject-covers-a-match".into(), detail: format!("{:?} overlaps the find_iter match {:?}", o, m), op: w.script.len() });
                            break;
                        }
                    }
                }
            }
            if ex.viols.is_empty() {
                if !fw.done || !bw.done {
                    ex.viols.push(SViol { clause: "T-never-done".into(), detail: format!("no Done after {} further steps", bound), op: w.script.len() });
                } else {
                    finish_searcher(w, &f, &fw, &bw, true, &mut ex.viols, w.script.len());
                }
            }
        }
        if uses2 && ex.viols.is_empty() {
            let bound2 = 4 * h2.len() + 12;
            let mut drain2_job = || {
                let mut n = 0;
                while !fw2.done && n < bound2 {
                    let o = step_to_obs(searcher2.next());
                    if let Some((clause, detail)) = fw2.observe(h2, o) {
                        ex.viols.push(SViol { clause: format!("{}@sibling", clause), detail, op: w.script.len() });
                        return;
                    }
                    n += 1;
                }
                n = 0;
                while !bw2.done && n < bound2 {
                    let o = step_to_obs(searcher2.next_back());
                    if let Some((clause, detail)) = bw2.observe(h2, o) {
                        ex.viols.push(SViol { clause: format!("{}@sibling", clause), detail, op: w.script.len() });
                        return;
                    }
                    n += 1;
                }
            };
            let res = drain2_job.dispatch(cur, w.fuel, &mut remote);
            if let Err(true) = res {
                return Err(true);
            }
            if ex.viols.is_empty() {
                let w2 = SWorld { hay: w.hay2.clone(), ..w.clone() };
                let mut v2 = Vec::new();
                finish_searcher(&w2, &f2, &fw2, &bw2, true, &mut v2, w.script.len());
                for mut v in v2 {
                    v.clause = format!("{}@sibling", v.clause);
                    ex.viols.push(v);
                }
            }
        }
        ex.steps_fwd += fw.steps;
        ex.steps_bwd += bw.steps;
        ex.remote_calls = remote;
        Ok(())
    });
    ex.sim_steps = ctx.total_steps.get();
    ex.outcome_hash = oh.0;
    if let Err(_fuel) = r {
        ex.inconclusive = true;
        ex.viols.clear();
    }
    ex
}

// ------------------------------------------------------------------ worker / replay / shrink / drive

fn arg<'a>(args: &'a [String], name: &str) -> Option<&'a str> {
    args.iter().position(|a| a == name).and_then(|i| args.get(i + 1)).map(|s| s.as_str())
}
fn arg_u64(args: &[String], name: &str, d: u64) -> u64 {
    arg(args, name).and_then(|s| s.parse().ok()).unwrap_or(d)
}

fn shape_of(w: &SWorld, v: &SViol) -> J {
    // coarse shape used to match known findings: direction and whether an empty match is involved
    let re = Regex::with_flags(&w.pattern, w.flags.as_str());
    let empty = match re {
        Ok(re) => re.find_iter(&w.hay).any(|m| m.start() == m.end()),
        Err(_) => false,
    };
    J::obj().set("empty_match_involved", J::Bool(empty)).set("direction", J::s(if v.clause.contains("backward") { "backward" } else if v.clause.contains("forward") { "forward" } else { "either" }))
}

fn viol_file(w: &SWorld, v: &SViol, seed: u64, run: u64) -> J {
    let mut j = J::obj().set("format", J::u(1)).set("property", J::s("C20")).set("clause", J::s(&v.clause)).set("seed", J::u(seed)).set("run", J::u(run)).set("shape", shape_of(w, v));
    if let J::Obj(o) = w.to_json() {
        for (k, val) in o {
            j.put(&k, val);
        }
    }
    j.put("failing_op_index", J::u(v.op as u64));
    j.put("detail", J::s(&v.detail));
    j
}

fn cmd_worker(args: &[String]) -> i32 {
    let seed = arg_u64(args, "--seed", 1);
    let first = arg_u64(args, "--first-override", arg_u64(args, "--first", 0));
    let stride = arg_u64(args, "--stride", 1);
    let count = arg_u64(args, "--count", 1000);
    let budget_ms = arg_u64(args, "--budget-ms", 20_000);
    let out = arg(args, "--out").unwrap_or("/verif/work/s").to_string();
    if let Some(c) = arg(args, "--cpu").and_then(|s| s.parse::<usize>().ok()) {
        driver::pin_to_cpu(c);
    }
    let evlog = args.iter().any(|a| a == "--evlog");
    let t0 = Instant::now();
    let mut st = Stats::default();
    let mut set: HashSet<u64> = HashSet::new();
    let mut progress = std::fs::File::create(format!("{}.progress", out)).expect("progress");
    let mut evout = if evlog { Some(std::io::BufWriter::new(std::fs::File::create(format!("{}.evlog", out)).expect("evlog"))) } else { None };
    let mut by_clause: std::collections::HashMap<String, u64> = Default::default();
    let mut j = 0;
    while j < count {
        if j % 256 == 0 && t0.elapsed().as_millis() as u64 > budget_ms {
            break;
        }
        let run = first + j * stride;
        {
            use std::io::Seek;
            let _ = progress.seek(std::io::SeekFrom::Start(0));
            let _ = write!(progress, "{:>20}\n", run);
        }
        let w = gen_sworld(seed, run);
        let e = exec_sworld(&w);
        st.add("evaluations", 1);
        st.add("simulated_steps", e.sim_steps);
        st.add("faults.fuel", e.inconclusive as u64);
        st.add("faults.rebuild", e.rebuilds as u64);
        st.add("faults.sibling_searcher_steps", e.sibling_steps as u64);
        st.add("probes.big_haystack_world_conclusive", e.big_worlds as u64);
        st.add("faults.searcher_clone_swaps", e.clone_swaps as u64);
        st.add("faults.searcher_thread_hops", e.hops as u64);
        st.add("probes.calls_made_on_a_helper_thread", e.remote_calls as u64);
        st.add("typelevel.searcher_claims_double_ended", e.claims_de as u64);
        st.add("compile_errors", e.compile_err as u64);
        st.add("ops.forward_steps", e.steps_fwd as u64);
        st.add("ops.backward_steps", e.steps_bwd as u64);
        st.add("ops.consumers", e.consumers as u64);
        st.add("ops.find_iter_matches", e.nmatches as u64);
        st.add("probes.world_with_empty_match", e.has_empty_match as u64);
        st.add("probes.world_with_multibyte_haystack", e.multibyte as u64);
        st.add("probes.both_directions_interleaved", e.both_dirs_before_done as u64);
        st.add("probes.empty_match_and_multibyte", (e.has_empty_match && e.multibyte) as u64);
        if e.both_dirs_before_done && !e.compile_err && !e.inconclusive {
            st.add("c20.nontrivial", 1);
            if set.insert(w.hash()) && st.samples.len() < 2 {
                st.samples.push(w.to_json());
            }
        }
        if let Some(o) = evout.as_mut() {
            let _ = writeln!(o, "{} {:016x}", run, e.outcome_hash ^ (e.viols.len() as u64));
        }
        if let Some(v) = e.viols.first() {
            st.add("violations.C20", 1);
            st.add(&format!("clauses.{}", v.clause), 1);
            let n = by_clause.entry(v.clause.clone()).or_insert(0);
            *n += 1;
            // keep a few files per clause: the driver wants the distinct clauses
            if *n <= 2 {
                let _ = std::fs::write(format!("{}.viol-C20-{}.json", out, run), viol_file(&w, v, seed, run).to_pretty());
            }
        }
        j += 1;
    }
    st.add("wall_ms", t0.elapsed().as_millis() as u64);
    let mut hb = Vec::with_capacity(set.len() * 9);
    for h in &set {
        hb.push(20u8);
        hb.extend_from_slice(&h.to_le_bytes());
    }
    std::fs::write(format!("{}.hashes", out), hb).expect("hashes");
    std::fs::write(format!("{}.stats.json", out), st.to_json().to_string()).expect("stats");
    if let Some(mut o) = evout {
        let _ = o.flush();
    }
    0
}

fn load(path: &str) -> Result<(J, SWorld), String> {
    let t = std::fs::read_to_string(path).map_err(|e| e.to_string())?;
    let j = json::parse(&t)?;
    let w = SWorld::from_json(&j)?;
    Ok((j, w))
}

fn cmd_replay(args: &[String]) -> i32 {
    let path = match args.get(2) {
        Some(p) => p,
        None => return 2,
    };
    let (j, w) = match load(path) {
        Ok(x) => x,
        Err(e) => {
            eprintln!("HARNESS-ERROR: {}", e);
            return 2;
        }
    };
    let clause = j.get("clause").and_then(|v| v.as_str()).unwrap_or("").to_string();
    let e = exec_sworld(&w);
    let quiet = args.iter().any(|a| a == "--quiet");
    if !quiet {
        println!("replay {}: /{}/{} on {:?}, {} script ops", path, w.pattern, w.flags, w.hay, w.script.len());
        for v in &e.viols {
            println!("  violation clause={} op={} {}", v.clause, v.op, v.detail);
        }
    }
    if e.viols.iter().any(|v| v.clause == clause) {
        if !quiet {
            println!("REPRODUCED property=C20 clause={}", clause);
        }
        1
    } else {
        if !quiet {
            println!("NOT-REPRODUCED");
        }
        0
    }
}

fn cmd_shrink(args: &[String]) -> i32 {
    let (inp, outp) = match (args.get(2), args.get(3)) {
        (Some(a), Some(b)) => (a, b),
        _ => return 2,
    };
    let (j, mut w) = match load(inp) {
        Ok(x) => x,
        Err(e) => {
            eprintln!("HARNESS-ERROR: {}", e);
            return 2;
        }
    };
    let clause = j.get("clause").and_then(|v| v.as_str()).unwrap_or("").to_string();
    let mut evals = 0u32;
    let mut fails = |w: &SWorld| -> bool {
        evals += 1;
        evals < 3000 && exec_sworld(w).viols.iter().any(|v| v.clause == clause)
    };
    if !fails(&w) {
        println!("shrink: input does not reproduce");
        return 3;
    }
    loop {
        let before = w.clone();
        // drop script ops (chunks, then singles)
        let mut chunk = (w.script.len() / 2).max(1);
        loop {
            let mut i = 0;
            while i < w.script.len() {
                let mut c = w.clone();
                let end = (i + chunk).min(c.script.len());
                c.script.drain(i..end);
                if fails(&c) {
                    w = c;
                } else {
                    i += chunk;
                }
            }
            if chunk == 1 {
                break;
            }
            chunk /= 2;
        }
        // simplify ops: provided methods -> plain steps
        for i in 0..w.script.len() {
            let simpler = match &w.script[i] {
                SOp::NextMatch | SOp::NextReject => Some(SOp::Next),
                SOp::NextMatchBack | SOp::NextRejectBack => Some(SOp::NextBack),
                _ => None,
            };
            if let Some(s) = simpler {
                let mut c = w.clone();
                c.script[i] = s;
                if fails(&c) {
                    w = c;
                }
            }
        }
        // shorten haystack
        let mut i = 0;
        loop {
            let chars: Vec<char> = w.hay.chars().collect();
            if i >= chars.len() {
                break;
            }
            let mut cs = chars.clone();
            cs.remove(i);
            let mut c = w.clone();
            c.hay = cs.into_iter().collect();
            if fails(&c) {
                w = c;
            } else {
                i += 1;
            }
        }
        // shorten pattern
        let mut i = 0;
        loop {
            let chars: Vec<char> = w.pattern.chars().collect();
            if i >= chars.len() {
                break;
            }
            let mut progressed = false;
            for width in [1usize, 2, 3, 4] {
                if i + width > chars.len() {
                    break;
                }
                let mut cs = chars.clone();
                cs.drain(i..i + width);
                let cand: String = cs.into_iter().collect();
                if Regex::with_flags(&cand, w.flags.as_str()).is_err() {
                    continue;
                }
                let mut c = w.clone();
                c.pattern = cand;
                if fails(&c) {
                    w = c;
                    progressed = true;
                    break;
                }
            }
            if !progressed {
                i += 1;
            }
        }
        // drop flags
        for k in 0..w.flags.len() {
            let mut c = w.clone();
            let mut f: Vec<char> = c.flags.chars().collect();
            if k < f.len() {
                f.remove(k);
            }
            c.flags = f.into_iter().collect();
            if fails(&c) {
                w = c;
            }
        }
        if w == before {
            break;
        }
    }
    let e = exec_sworld(&w);
    let v = match e.viols.iter().find(|v| v.clause == clause) {
        Some(v) => v.clone(),
        None => return 3,
    };
    let mut f = viol_file(&w, &v, j.get("seed").and_then(|v| v.as_u64()).unwrap_or(0), j.get("run").and_then(|v| v.as_u64()).unwrap_or(0));
    f.put("minimised", J::Bool(true));
    if std::fs::write(outp, f.to_pretty()).is_err() {
        return 2;
    }
    println!("shrink: {} evaluations; /{}/{} on {:?}; script {:?}", evals, w.pattern, w.flags, w.hay, w.script.iter().map(|o| o.name()).collect::<Vec<_>>());
    0
}

fn cmd_drive(args: &[String]) -> i32 {
    let t0 = Instant::now();
    let exe = std::env::current_exe().expect("exe");
    let tier = arg(args, "--tier").unwrap_or("quick").to_string();
    let seed = driver::env_seed();
    let (dw, db) = if tier == "thorough" { (120_000_000u64, 600_000u64) } else { (1_600_000, 20_000) };
    let worlds = arg(args, "--worlds").and_then(|s| s.parse().ok()).or_else(|| std::env::var("VERIF_WORLDS").ok().and_then(|s| s.parse().ok())).unwrap_or(dw);
    let budget_ms = arg_u64(args, "--budget-ms", db);
    let ncpu = driver::online_cpus();
    let nworkers = arg(args, "--workers").and_then(|s| s.parse().ok()).unwrap_or(ncpu.min(16));
    let root = driver::out_root();
    let workdir = root.join("work").join(format!("C20-{}", tier));
    println!("VERIF_SEED={} property=C20 tier={} worlds<={} budget={}s workers={}", seed, tier, worlds, budget_ms / 1000, nworkers);
    let r = driver::run_batch(&exe, "C20", seed, worlds, budget_ms, nworkers, &workdir, &[]);
    if r.harness_error || !r.crashed.is_empty() {
        println!("HARNESS-ERROR: worker failure {:?}", r.crashed);
        return 2;
    }
    if r.stats.get("evaluations") == 0 {
        println!("HARNESS-ERROR: no world was executed");
        return 2;
    }
    let replays = root.join("replays");
    let _ = std::fs::create_dir_all(&replays);
    let known = driver::load_known_findings();
    // one representative per distinct (clause, shape): confirm + minimise
    let mut seen: HashSet<String> = HashSet::new();
    let mut lines = Vec::new();
    let mut reported = 0u64;
    let mut known_hits: std::collections::BTreeMap<String, u64> = Default::default();
    let mut unrepro = 0;
    for vf in &r.viol_files {
        let j = match std::fs::read_to_string(vf).ok().and_then(|t| json::parse(&t).ok()) {
            Some(j) => j,
            None => continue,
        };
        let clause = j.get("clause").and_then(|v| v.as_str()).unwrap_or("").to_string();
        let shape = j.get("shape").map(|s| s.to_string()).unwrap_or_default();
        let key = format!("{} {}", clause, shape);
        if seen.contains(&key) || seen.len() >= 8 {
            continue;
        }
        seen.insert(key.clone());
        // listed as a known finding? (property, clause, shape) must all match
        if let Some(k) = known.iter().find(|k| k.status == "known" && k.property == "C20" && k.clause == clause && k.raw.get("shape").map(|s| s.to_string()).unwrap_or_default() == shape) {
            *known_hits.entry(format!("{} {}", k.clause, k.note)).or_insert(0) += 1;
            continue;
        }
        let run = j.get("run").and_then(|v| v.as_u64()).unwrap_or(0);
        let dest = replays.join(format!("C20-{}-{}.json", seed, run));
        match driver::confirm_and_minimise(&exe, vf, &dest) {
            Some(c) => {
                // the minimised file may have drifted into a known shape: re-check
                let mj = std::fs::read_to_string(&c.path).ok().and_then(|t| json::parse(&t).ok());
                let mshape = mj.as_ref().and_then(|m| m.get("shape")).map(|s| s.to_string()).unwrap_or_default();
                if known.iter().any(|k| k.status == "known" && k.property == "C20" && k.clause == c.clause && k.raw.get("shape").map(|s| s.to_string()).unwrap_or_default() == mshape) && mshape != shape {
                    // keep the un-minimised, un-listed shape
                    let _ = std::fs::copy(vf, &dest);
                }
                reported += 1;
                lines.push(format!("VIOLATION property=C20 replay={}", c.path.display()));
                lines.push(format!("  clause={} shape={} minimised={}", c.clause, shape, c.minimised));
            }
            None => unrepro += 1,
        }
    }
    if reported == 0 && unrepro > 0 {
        println!("HARNESS-ERROR: {} violation file(s) did not reproduce in a fresh process", unrepro);
        return 2;
    }
    for k in known.iter().filter(|k| k.status == "known" && k.property == "C20") {
        println!("KNOWN-FINDING: property=C20 {} {}", k.clause, k.note);
    }
    let mut extra: Vec<(String, J)> = Vec::new();
    if tier == "thorough" {
        let (m, c) = driver::determinism_check(&exe, "C20", seed, 2000, &[2, 16], &workdir.join("det"));
        extra.push(("determinism_runs_rechecked".into(), J::u(c)));
        extra.push(("determinism_mismatches".into(), J::u(m)));
        if m != 0 {
            println!("HARNESS-ERROR: determinism re-check found {} mismatches", m);
            return 2;
        }
    }
    if let Ok(p) = std::env::var("VERIF_EXTRA_JSON") {
        if let Ok(t) = std::fs::read_to_string(&p) {
            if let Ok(j) = json::parse(&t) {
                extra.push(("auxiliary".into(), j));
            }
        }
    }
    extra.push(("clauses_seen".into(), r.stats.group("clauses")));
    extra.push(("known_findings_matched".into(), J::Obj(known_hits.iter().map(|(k, v)| (k.clone(), J::u(*v))).collect())));
    extra.push(("seeds".into(), J::obj().set("base_seed", J::u(seed)).set("run_index_range", J::Arr(vec![J::u(0), J::u(r.stats.get("evaluations"))]))));
    extra.push((
        "components".into(),
        J::obj()
            .set("real", J::Arr(["RegexSearcher (Searcher + ReverseSearcher impl)", "std::str consumers (find, split, matches, replace, trim_start_matches, r* forms)", "parser/optimizer/emitter/backtracker"].iter().map(|s| J::s(s)).collect()))
            .set("stubbed", J::Arr(["none: no threads; the simulated schedule is the seeded interleaving of next()/next_back()/provided methods/rebuild"].iter().map(|s| J::s(s)).collect())),
    ));
    let distinct = r.distinct.get(&20).copied().unwrap_or(0);
    let rule = "worlds are a pure function of (VERIF_SEED, run index): one regex (committed corpus or grammar generator), one haystack of 0-16 chars with multi-byte characters, a script of <= 4*len+12 calls drawn from next/next_back/next_match/next_reject/next_match_back/next_reject_back/rebuild/std consumers, then drained until Done on both ends. A case is one world; it is non-trivial if both forward and backward calls were made on the same searcher before either end reported Done; distinct = distinct FNV hashes of the world description across all workers.";
    let wall = t0.elapsed().as_secs_f64();
    driver::write_evidence("C20", &tier, seed, &r.stats, distinct, rule, wall, reported, extra);
    println!(
        "worlds={} distinct_nontrivial={} forward_steps={} backward_steps={} consumers={} fuel_inconclusive={} wall={:.1}s",
        r.stats.get("evaluations"),
        distinct,
        r.stats.get("ops.forward_steps"),
        r.stats.get("ops.backward_steps"),
        r.stats.get("ops.consumers"),
        r.stats.get("faults.fuel"),
        wall
    );
    for l in &lines {
        println!("{}", l);
    }
    if reported > 0 {
        1
    } else {
        println!("OK property=C20 held on everything explored");
        0
    }
}

fn main() {
    let args: Vec<String> = std::env::args().collect();
    let code = match args.get(1).map(|s| s.as_str()) {
        Some("worker") => cmd_worker(&args),
        Some("replay") => cmd_replay(&args),
        Some("shrink") => cmd_shrink(&args),
        Some("drive") => cmd_drive(&args),
        Some("gen") => {
            let w = gen_sworld(arg_u64(&args, "--seed", 1), arg_u64(&args, "--run", 0));
            println!("{}", w.to_json().to_pretty());
            0
        }
        _ => {
            eprintln!("usage: searcherworld <worker|drive|replay|shrink|gen>");
            2
        }
    };
    std::process::exit(code);
}
