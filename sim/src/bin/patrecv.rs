//! C20, other receivers: `searcherworld` drives the searcher of `&Regex`. If the crate also
//! implements `Pattern` for another receiver (`Regex` by value, `&&Regex`, ...) with a searcher
//! type of its own, that searcher is "the regex Searcher" of the property just as much
//! (seeded C20-Q). Which receivers exist is a compile-time fact: this binary is built once per
//! candidate (cargo features `recv-*`, capability levels `lvl-rev`, `lvl-de`); a build that
//! fails with "trait bound not satisfied" means the receiver does not exist and is skipped.
//! `recv-ref` (`&Regex`) always exists and keeps the machinery honest.
//!
//!   patrecv drive --worlds N --out <json>      exit 0 clean / 1 violation (prints VIOLATION line)
//!   patrecv replay <file>
#![feature(pattern)]

use regress::Regex;
use simcore::json::{self, J};
use simcore::rng::Rng;
use simcore::run::install_panic_hook;
use simcore::sched::{self, with_ctx, Ctx, SimCancel};
use std::panic::{catch_unwind, AssertUnwindSafe};
use std::str::pattern::{Pattern, SearchStep, Searcher};
#[cfg(feature = "lvl-rev")]
use std::str::pattern::ReverseSearcher;

const RECEIVER: &str = if cfg!(feature = "recv-value") {
    "Regex (by value)"
} else if cfg!(feature = "recv-refref") {
    "&&Regex"
} else {
    "&Regex"
};
const LEVEL: &str = if cfg!(feature = "lvl-de") {
    "DoubleEndedSearcher"
} else if cfg!(feature = "lvl-rev") {
    "ReverseSearcher"
} else {
    "Searcher"
};

/// cargo features this binary was built with (needed to rebuild it for a replay)
const FEATURES: &str = if cfg!(all(feature = "recv-value", feature = "lvl-de")) {
    "recv-value,lvl-de"
} else if cfg!(all(feature = "recv-value", feature = "lvl-rev")) {
    "recv-value,lvl-rev"
} else if cfg!(feature = "recv-value") {
    "recv-value"
} else if cfg!(all(feature = "recv-refref", feature = "lvl-de")) {
    "recv-refref,lvl-de"
} else if cfg!(all(feature = "recv-refref", feature = "lvl-rev")) {
    "recv-refref,lvl-rev"
} else if cfg!(feature = "recv-refref") {
    "recv-refref"
} else if cfg!(feature = "lvl-de") {
    "recv-ref,lvl-de"
} else if cfg!(feature = "lvl-rev") {
    "recv-ref,lvl-rev"
} else {
    "recv-ref"
};

type Viol = (String, String);

/// Forward drain: adjacent, on char boundaries, complete; Match steps == find_iter.
fn drain_fwd<'h, P: Pattern>(p: P, h: &'h str, f: &[(usize, usize)]) -> Option<Viol> {
    let mut s = p.into_searcher(h);
    let mut pos = 0usize;
    let mut ms = Vec::new();
    for _ in 0..(4 * h.len() + 12) {
        match s.next() {
            SearchStep::Done => {
                if pos != h.len() {
                    return Some(("T-forward-incomplete".into(), format!("Done at {} of {}", pos, h.len())));
                }
                if ms != f {
                    return Some(("M-forward-matches!=find_iter".into(), format!("{:?} vs find_iter {:?}", ms, f)));
                }
                return None;
            }
            SearchStep::Match(a, b) | SearchStep::Reject(a, b) if a != pos || b < a || b > h.len() || !h.is_char_boundary(a) || !h.is_char_boundary(b) => {
                return Some(("T-forward-gap-or-boundary".into(), format!("step ({},{}) after frontier {}", a, b, pos)));
            }
            SearchStep::Match(a, b) => {
                ms.push((a, b));
                pos = b;
            }
            SearchStep::Reject(_, b) => pos = b,
        }
    }
    Some(("T-never-done".into(), "forward".into()))
}

/// Backward drain: the mirror image; Match steps == find_iter read last to first.
#[cfg(feature = "lvl-rev")]
fn drain_bwd<'h, P: Pattern>(p: P, h: &'h str, f: &[(usize, usize)]) -> Option<Viol>
where
    P::Searcher<'h>: ReverseSearcher<'h>,
{
    let mut s = p.into_searcher(h);
    let mut pos = h.len();
    let mut ms = Vec::new();
    for _ in 0..(4 * h.len() + 12) {
        match s.next_back() {
            SearchStep::Done => {
                if pos != 0 {
                    return Some(("T-backward-incomplete".into(), format!("Done at {}", pos)));
                }
                ms.reverse();
                if ms != f {
                    return Some(("R-backward-matches!=reversed-find_iter".into(), format!("{:?} vs find_iter {:?}", ms, f)));
                }
                return None;
            }
            SearchStep::Match(a, b) | SearchStep::Reject(a, b) if b != pos || a > b || !h.is_char_boundary(a) || !h.is_char_boundary(b) => {
                return Some(("T-backward-gap-or-boundary".into(), format!("step ({},{}) before frontier {}", a, b, pos)));
            }
            SearchStep::Match(a, b) => {
                ms.push((a, b));
                pos = a;
            }
            SearchStep::Reject(a, _) => pos = a,
        }
    }
    Some(("T-never-done".into(), "backward".into()))
}

/// Both ends of ONE searcher, taken in a seeded order. For a searcher that claims
/// DoubleEndedSearcher the two ends share the haystack: together they must report every
/// find_iter match exactly once and never overlap.
#[cfg(feature = "lvl-de")]
fn drain_both<'h, P: Pattern>(p: P, h: &'h str, f: &[(usize, usize)], order: u64) -> Option<Viol>
where
    P::Searcher<'h>: std::str::pattern::DoubleEndedSearcher<'h>,
{
    let mut s = p.into_searcher(h);
    let (mut lo, mut hi) = (0usize, h.len());
    let (mut front, mut back) = (Vec::new(), Vec::new());
    let (mut fdone, mut bdone) = (false, false);
    let mut bits = order;
    for _ in 0..(8 * h.len() + 24) {
        if fdone && bdone {
            break;
        }
        let take_front = if fdone {
            false
        } else if bdone {
            true
        } else {
            let b = bits & 1 == 0;
            bits = bits.rotate_right(1);
            b
        };
        if take_front {
            match s.next() {
                SearchStep::Done => fdone = true,
                SearchStep::Match(a, b) | SearchStep::Reject(a, b) if a != lo || b < a || b > hi => {
                    return Some(("D-ends-cross-or-gap".into(), format!("forward step ({},{}) with the ends at {}..{}", a, b, lo, hi)));
                }
                SearchStep::Match(a, b) => {
                    front.push((a, b));
                    lo = b;
                }
                SearchStep::Reject(_, b) => lo = b,
            }
        } else {
            match s.next_back() {
                SearchStep::Done => bdone = true,
                SearchStep::Match(a, b) | SearchStep::Reject(a, b) if b != hi || a > b || a < lo => {
                    return Some(("D-ends-cross-or-gap".into(), format!("backward step ({},{}) with the ends at {}..{}", a, b, lo, hi)));
                }
                SearchStep::Match(a, b) => {
                    back.push((a, b));
                    hi = a;
                }
                SearchStep::Reject(a, _) => hi = a,
            }
        }
    }
    back.reverse();
    front.extend(back);
    if front != f {
        return Some(("D-both-ends-together!=find_iter".into(), format!("{:?} vs find_iter {:?} (order bits {:#x})", front, f, order)));
    }
    None
}

/// std's double-ended consumers over the receiver.
#[cfg(feature = "lvl-de")]
fn consumers_de<'h, P: Pattern, F: Fn() -> P>(mk: F, h: &'h str, f: &[(usize, usize)]) -> Option<Viol>
where
    P::Searcher<'h>: std::str::pattern::DoubleEndedSearcher<'h>,
{
    // matches(): alternate the two ends
    let mut it = h.matches(mk());
    let (mut a, mut b) = (Vec::new(), Vec::new());
    for k in 0..(2 * f.len() + 4) {
        let x = if k % 2 == 0 { it.next_back() } else { it.next() };
        match x {
            Some(m) if k % 2 == 0 => b.push(m),
            Some(m) => a.push(m),
            None => break,
        }
    }
    b.reverse();
    a.extend(b);
    let exp: Vec<&str> = f.iter().map(|m| &h[m.0..m.1]).collect();
    if a != exp {
        return Some(("S-consumer-matches-both-ends".into(), format!("{:?} vs {:?}", a, exp)));
    }
    // split(): one from the front, one from the back, then the rest
    let whole: Vec<&str> = h.split(mk()).collect();
    let mut sp = h.split(mk());
    let first = sp.next();
    let last = sp.next_back();
    let mut mid: Vec<&str> = sp.collect();
    if let Some(x) = first {
        mid.insert(0, x);
    }
    if let Some(x) = last {
        mid.push(x);
    }
    if mid != whole {
        return Some(("S-consumer-split-both-ends".into(), format!("{:?} vs forward-only {:?}", mid, whole)));
    }
    let rev: Vec<(usize, &str)> = h.match_indices(mk()).rev().collect();
    let exp_rev: Vec<(usize, &str)> = f.iter().rev().map(|m| (m.0, &h[m.0..m.1])).collect();
    if rev != exp_rev {
        return Some(("S-consumer-match_indices-rev".into(), format!("{:?} vs {:?}", rev, exp_rev)));
    }
    None
}

/// A few forward consumers, modelled by hand from find_iter.
fn consumers_fwd<'h, P: Pattern, F: Fn() -> P>(mk: F, h: &'h str, f: &[(usize, usize)]) -> Option<Viol> {
    if h.find(mk()) != f.first().map(|m| m.0) {
        return Some(("S-consumer-find".into(), format!("{:?} vs {:?}", h.find(mk()), f.first())));
    }
    if h.contains(mk()) == f.is_empty() {
        return Some(("S-consumer-contains".into(), String::new()));
    }
    let got: Vec<(usize, &str)> = h.match_indices(mk()).collect();
    let exp: Vec<(usize, &str)> = f.iter().map(|m| (m.0, &h[m.0..m.1])).collect();
    if got != exp {
        return Some(("S-consumer-match_indices".into(), format!("{:?} vs {:?}", got, exp)));
    }
    let mut exp_split = Vec::new();
    let mut last = 0;
    for m in f {
        exp_split.push(&h[last..m.0]);
        last = m.1;
    }
    exp_split.push(&h[last..]);
    let got: Vec<&str> = h.split(mk()).collect();
    if got != exp_split {
        return Some(("S-consumer-split".into(), format!("{:?} vs {:?}", got, exp_split)));
    }
    let rep = h.replace(mk(), "-");
    if rep != exp_split.join("-") {
        return Some(("S-consumer-replace1".into(), format!("{:?} vs {:?}", rep, exp_split.join("-"))));
    }
    None
}

fn check_world(pattern: &str, flags: &str, h: &str, order: u64) -> Result<Option<Viol>, ()> {
    let re = match Regex::with_flags(pattern, flags) {
        Ok(r) => r,
        Err(_) => return Ok(None),
    };
    let f: Vec<(usize, usize)> = re.find_iter(h).map(|m| (m.start(), m.end())).collect();
    let _ = order;
    macro_rules! with_receiver {
        ($mk:expr) => {{
            let mk = $mk;
            if let Some(v) = drain_fwd(mk(), h, &f) {
                return Ok(Some(v));
            }
            if let Some(v) = consumers_fwd(&mk, h, &f) {
                return Ok(Some(v));
            }
            #[cfg(feature = "lvl-rev")]
            if let Some(v) = drain_bwd(mk(), h, &f) {
                return Ok(Some(v));
            }
            #[cfg(feature = "lvl-de")]
            {
                for k in 0..3u64 {
                    if let Some(v) = drain_both(mk(), h, &f, order.rotate_left(17 * k as u32) ^ k) {
                        return Ok(Some(v));
                    }
                }
                if let Some(v) = consumers_de(&mk, h, &f) {
                    return Ok(Some(v));
                }
            }
        }};
    }
    #[cfg(feature = "recv-value")]
    with_receiver!(|| re.clone());
    #[cfg(feature = "recv-refref")]
    {
        let r = &re;
        with_receiver!(|| &r);
    }
    #[cfg(not(any(feature = "recv-value", feature = "recv-refref")))]
    with_receiver!(|| &re);
    Ok(None)
}

/// One world under the step hook's fuel (a runaway pattern makes the world inconclusive).
fn run_world(pattern: &str, flags: &str, h: &str, order: u64) -> Result<Option<Viol>, ()> {
    let ctx = sched::cur_ctx().expect("ctx");
    ctx.op_steps.set(0);
    ctx.fuel.set(400_000);
    ctx.cancel_at.set(0);
    ctx.armed.set(true);
    let r = catch_unwind(AssertUnwindSafe(|| check_world(pattern, flags, h, order)));
    ctx.armed.set(false);
    match r {
        Ok(x) => x,
        Err(p) if p.is::<SimCancel>() => Err(()),
        Err(_) => Ok(Some(("S-panic".into(), "panic while driving the receiver's searcher".into()))),
    }
}

fn gen(base: u64, run: u64) -> (String, String, String, u64) {
    let root = Rng::world_root(base, run);
    let mut wl = Rng::stream(root, 1);
    let cp = simcore::gen::corpus();
    let (flags, pattern) = if wl.chance(1, 3) { simcore::gen::gen_pattern(&mut wl, false) } else { cp[wl.usize_below(cp.len())].clone() };
    let mut alpha: Vec<char> = pattern.chars().filter(|c| c.is_alphanumeric() || *c == ' ').collect();
    alpha.extend(alpha.clone());
    alpha.extend(['a', 'b', 'c', '1', '2', ' ', '\n', 'é', 'ß', '𝒳', 'x', '€']);
    let edge = simcore::gen::edge_chars(&mut wl);
    alpha.extend(edge.iter());
    let n = [0, 1, 2, 3, 5, 8, 12, 20][wl.usize_below(8)];
    let hay: String = (0..n).map(|_| alpha[wl.usize_below(alpha.len())]).collect();
    (pattern, flags, hay, wl.next_u64())
}

fn arg<'a>(args: &'a [String], name: &str) -> Option<&'a str> {
    args.iter().position(|a| a == name).and_then(|i| args.get(i + 1)).map(|s| s.as_str())
}

fn main() {
    let args: Vec<String> = std::env::args().collect();
    sched::install_hook();
    install_panic_hook();
    let ctx = Ctx::new(0, std::ptr::null());
    let code = with_ctx(&ctx, |_| match args.get(1).map(|s| s.as_str()) {
        Some("drive") => {
            let seed: u64 = std::env::var("VERIF_SEED").ok().and_then(|s| s.parse().ok()).unwrap_or(1);
            let worlds: u64 = arg(&args, "--worlds").and_then(|s| s.parse().ok()).unwrap_or(20_000);
            let out = arg(&args, "--out").unwrap_or("/dev/null").to_string();
            let replays = arg(&args, "--replays").unwrap_or(".").to_string();
            let (mut done, mut inconclusive, mut with_matches) = (0u64, 0u64, 0u64);
            let mut viol: Option<(u64, String, String, String, u64, Viol)> = None;
            for run in 0..worlds {
                let (p, fl, h, order) = gen(seed.wrapping_mul(7_000_003), run);
                match run_world(&p, &fl, &h, order) {
                    Err(()) => inconclusive += 1,
                    Ok(None) => {}
                    Ok(Some(v)) => {
                        viol = Some((run, p, fl, h, order, v));
                        break;
                    }
                }
                done += 1;
                if run % 8 == 0 {
                    with_matches += 1;
                }
            }
            let mut j = J::obj().set("receiver", J::s(RECEIVER)).set("level", J::s(LEVEL)).set("worlds", J::u(done)).set("fuel_inconclusive", J::u(inconclusive)).set("violations", J::u(viol.is_some() as u64));
            let _ = with_matches;
            let code = if let Some((run, p, fl, h, order, (clause, detail))) = viol {
                let f = format!("{}/C20-recv-{}-{}.json", replays, seed, run);
                let r = J::obj()
                    .set("format", J::u(1))
                    .set("property", J::s("C20"))
                    .set("engine", J::s("patrecv"))
                    .set("receiver", J::s(RECEIVER))
                    .set("level", J::s(LEVEL))
                    .set("features", J::s(FEATURES))
                    .set("clause", J::s(&clause))
                    .set("detail", J::s(&detail))
                    .set("pattern", J::s(&p))
                    .set("flags", J::s(&fl))
                    .set("haystack", J::s(&h))
                    .set("order", J::u(order));
                let _ = std::fs::write(&f, r.to_pretty());
                println!("receiver {} ({}): {} - {}", RECEIVER, LEVEL, clause, detail);
                println!("VIOLATION property=C20 replay={}", f);
                println!("  clause={} minimised=false", clause);
                j = j.set("replay", J::s(&f));
                1
            } else {
                0
            };
            let _ = std::fs::write(&out, j.to_string());
            code
        }
        Some("replay") => {
            let t = std::fs::read_to_string(args.get(2).map(|s| s.as_str()).unwrap_or("")).unwrap_or_default();
            let j = match json::parse(&t) {
                Ok(j) => j,
                Err(_) => {
                    eprintln!("HARNESS-ERROR: cannot read replay file");
                    return 2;
                }
            };
            let g = |k: &str| j.get(k).and_then(|v| v.as_str()).unwrap_or("").to_string();
            let order = j.get("order").and_then(|v| v.as_u64()).unwrap_or(0);
            match run_world(&g("pattern"), &g("flags"), &g("haystack"), order) {
                Ok(Some((clause, detail))) if clause == g("clause") => {
                    println!("{}: {}", clause, detail);
                    println!("REPRODUCED property=C20 clause={}", clause);
                    1
                }
                _ => {
                    println!("NOT-REPRODUCED");
                    0
                }
            }
        }
        _ => {
            eprintln!("usage: patrecv drive --worlds N --out <json> --replays <dir> | replay <file>");
            2
        }
    });
    std::process::exit(code);
}
