use simcore::gen::{gen_world, Profile};
use simcore::run::execute;
use std::time::Instant;

fn main() {
    let args: Vec<String> = std::env::args().collect();
    let n: u64 = args.get(2).and_then(|s| s.parse().ok()).unwrap_or(1000);
    let profile = if args.get(1).map(|s| s.as_str()) == Some("c09") { Profile::C09 } else { Profile::C19 };
    let t0 = Instant::now();
    let mut viols = 0;
    let mut steps = 0u64;
    let mut switches = 0u64;
    let mut same = 0u64;
    for run in 0..n {
        let w = gen_world(1, run, profile);
        let e = execute(&w, None);
        steps += e.p2.steps;
        switches += e.p2.sched_stats.switches;
        same += e.p2.sched_stats.preempt_same_obj;
        if !e.viols.is_empty() {
            viols += 1;
            if viols <= 5 {
                println!("run {} viol {:?}", run, e.viols[0]);
                println!("{}", w.to_json(&e.p2.trace).to_pretty());
            }
        }
    }
    let dt = t0.elapsed().as_secs_f64();
    println!("{} worlds in {:.2}s = {:.0}/s; viols {}; steps {} switches {} same_obj {}", n, dt, n as f64 / dt, viols, steps, switches, same);
}
