//! iterworld: worker / driver / replay / shrink for the C19 and C09 simulations.

use simcore::driver;
use simcore::gen::{gen_world, Profile};
use simcore::json::{self, J};
use simcore::run::{execute, Exec, F_EMPTY, F_EMPTY_AT_END, F_EMPTY_MULTIBYTE, F_REPOLL, F_RESUME, F_SIBLING, F_START_BEYOND, F_START_LEN, F_START_MID};
use simcore::rng::Fnv;
use simcore::sched::{site, Segment};
use simcore::shrink::{Shrinker, Target};
use simcore::stats::Stats;
use simcore::world::World;
use simcore::rng::DetSet as HashSet;
use std::io::Write;
use std::time::Instant;

fn arg<'a>(args: &'a [String], name: &str) -> Option<&'a str> {
    args.iter().position(|a| a == name).and_then(|i| args.get(i + 1)).map(|s| s.as_str())
}
fn arg_u64(args: &[String], name: &str, d: u64) -> u64 {
    arg(args, name).and_then(|s| s.parse().ok()).unwrap_or(d)
}

fn profile_of(prop: &str) -> Profile {
    if prop == "C09" {
        Profile::C09
    } else {
        Profile::C19
    }
}

fn site_name(i: usize) -> Option<&'static str> {
    Some(match i as u32 {
        site::BT_INSN => "BT_INSN",
        site::BT_POP => "BT_POP",
        site::BT_START => "BT_START",
        site::LOOK_IN => "LOOK_IN",
        site::LOOK_OUT => "LOOK_OUT",
        site::BT_REPORT => "BT_REPORT",
        site::PK_STEP => "PK_STEP",
        site::PK_START => "PK_START",
        site::ITER_NEXT => "ITER_NEXT",
        site::COMPILE_PARSED => "COMPILE_PARSED",
        site::COMPILE_OPTIMIZED => "COMPILE_OPTIMIZED",
        site::COMPILE_EMITTED => "COMPILE_EMITTED",
        site::PRED_ARBITRARY => "PRED_ARBITRARY",
        site::PRED_ANCHORED => "PRED_ANCHORED",
        site::PRED_BYTESET1 => "PRED_BYTESET1",
        site::PRED_BYTESET2 => "PRED_BYTESET2",
        site::PRED_BYTESET3 => "PRED_BYTESET3",
        site::PRED_BYTESEQ => "PRED_BYTESEQ",
        site::PRED_BRACKET => "PRED_BRACKET",
        _ => return None,
    })
}

/// Fold one executed world into the worker's statistics. Returns the hashes of
/// distinct non-trivial cases for (C19, C09).
fn account(st: &mut Stats, w: &World, e: &Exec, c19_set: &mut HashSet<u64>, c09_set: &mut HashSet<u64>) {
    st.add("evaluations", 1);
    st.add("ops", w.nops() as u64);
    st.add(&format!("threads.{}", w.threads.len()), 1);
    st.add(&format!("strategy.{}", w.knobs.strategy.family()), 1);
    st.add("simulated_steps", e.p1.steps + e.p2.steps + e.p3.steps);
    st.add("simulated_steps_pass2", e.p2.steps);
    let ss = &e.p2.sched_stats;
    st.add("faults.preempt", ss.preempt);
    st.add("faults.stall", ss.stall);
    st.add("sched.switches", ss.switches);
    st.add("sched.boundary_switch", ss.boundary_switch);
    st.add("sched.forced_switch", ss.forced_switch);
    st.add("sched.decision_points", ss.decision_points);
    st.add("sched.blocked_handoffs", ss.blocked_handoffs);
    st.add("probes.preempt_same_regex_object", ss.preempt_same_obj);
    st.add("probes.preempt_in_lookaround", ss.preempt_in_lookaround);
    st.add("probes.preempt_with_nonempty_backtrack_stack", ss.preempt_bts_nonempty);
    st.add("probes.preempt_in_match_report", ss.preempt_in_report);
    st.add("probes.preempt_in_compile", ss.preempt_in_compile);
    st.max("max.inflight_same_regex_object", ss.max_inflight_same_obj);
    if w.threads.len() >= 9 {
        st.add("probes.crowd_worlds", 1);
        if ss.max_inflight_same_obj >= 9 {
            st.add("probes.crowd_worlds_with_9_or_more_searches_in_flight_on_one_object", 1);
        }
    }
    for p in [&e.p1, &e.p2, &e.p3] {
        st.add("faults.cancel", p.stats.cancel_fired);
        st.add("faults.fuel", p.stats.fuel_fired);
        st.add("engine_panics_unclaimed", p.stats.engine_panics);
        st.add("model_out_of_fuel_steps_skipped", p.stats.model_unknown);
    }
    let cs = &e.p2.stats;
    st.add("faults.resume", cs.resume);
    st.add("faults.repoll", cs.repoll);
    st.add("faults.sibling", cs.sibling_steps);
    st.add("faults.rewrite", cs.rewrite);
    st.add("faults.clone_race", cs.clone_while_original_midsearch);
    st.add("ops.clone", cs.clone_ops);
    st.add("ops.nested_replace", cs.nested);
    st.add("ops.compile", cs.compile_ops);
    st.add("ops.burst", cs.bursts);
    st.add("ops.iterator_adaptors", cs.adaptors);
    st.add("ops.kept_matches_rechecked", cs.kept_matches_rechecked);
    st.add("info.compile_debug_output_differs_between_two_compiles", e.p1.stats.compile_debug_differs + cs.compile_debug_differs);
    st.add("faults.closure_panic", cs.closure_panics);
    st.add("ops.next", cs.nexts);
    st.add("ops.matches", cs.matches);
    st.add("compile_errors", e.compile_errs);
    for i in 0..32 {
        if let Some(n) = site_name(i) {
            st.add(&format!("sites.{}", n), e.p2.sites[i]);
        }
    }
    st.add("cmp.compared", e.cmp.compared);
    st.add("cmp.step_count_divergence", e.cmp.step_count_divergence);
    st.add("cmp.fault_divergence", e.cmp.fault_divergence);
    st.add("cmp.poisoned_after_injected_unwind", e.cmp.poisoned_after_injected_unwind);
    st.add("cmp.incomparable_dead", e.cmp.incomparable_dead);
    st.add("model.calls", e.model.calls);
    st.add("model.memo_hits", e.model.memo_hits);
    st.add("model.out_of_fuel", e.model.out_of_fuel);
    st.add("model.steps", e.model.steps);
    st.add("model.pristine_queries", e.model.pristine_queries);
    st.add("model.pinned_first_queries", e.model.pinned_queries);
    st.add("model.cursor_shift_checks", e.model.shift_checks);
    st.add("model.prefilter_free_twin_checks", e.model.twin_checks);
    st.add("probes.prefilter_knob_honoured_by_the_library", e.model.twin_knob_honoured);
    st.add("model.haystack_extension_checks", e.model.extension_checks);
    st.add("model.haystack_extension_informative", e.model.extension_informative);
    st.add("model.cursor_shift_informative", e.model.shift_informative);
    st.add("model.pinned_first_unknown", e.model.pinned_unknown);
    st.add("model.pristine_unknown", e.model.pristine_unknown);
    st.add("probes.pristine_oracle_worlds", w.knobs.pristine as u64);
    let dup = w.regexes.iter().any(|r| {
        let p = &r.pattern;
        ["x", "y", "n"].iter().any(|n| p.matches(&format!("(?<{}>", n)).count() >= 2)
    });
    if dup {
        st.add("probes.duplicate_named_group_world", 1);
    }

    // C19 non-trivial: >= 1 context switch taken while >= 2 searches on the same Regex object were in flight
    if ss.preempt_same_obj >= 1 {
        st.add("c19.nontrivial", 1);
        let mut h = Fnv::default();
        h.u64(w.hash());
        for (t, n) in &e.p2.trace {
            h.u64(((*t as u64) << 56) ^ *n);
        }
        if c19_set.insert(h.0) && st.samples.len() < 2 {
            st.samples.push(w.to_json(&e.p2.trace).set("outcomes_pass2", outcomes_json(e)));
        }
    }
    // C09 non-trivial: an iterator history with >= 2 next calls that includes one of
    // {empty match, repoll, resume, sibling}
    for (hash, feat, nexts) in &cs.iter_histories {
        st.add("c09.iterator_histories", 1);
        if feat & F_EMPTY != 0 {
            st.add("probes.history_with_empty_match", 1);
        }
        if feat & F_EMPTY_MULTIBYTE != 0 {
            st.add("probes.empty_match_before_multibyte_char", 1);
        }
        if feat & F_EMPTY_AT_END != 0 {
            st.add("probes.empty_match_at_end", 1);
        }
        if feat & F_START_LEN != 0 {
            st.add("probes.start_eq_len", 1);
        }
        if feat & F_START_BEYOND != 0 {
            st.add("probes.start_beyond_len", 1);
        }
        if feat & F_START_MID != 0 {
            st.add("probes.start_mid", 1);
        }
        if feat & F_REPOLL != 0 {
            st.add("probes.history_with_repoll", 1);
        }
        if feat & F_RESUME != 0 {
            st.add("probes.history_with_resume", 1);
        }
        if feat & F_SIBLING != 0 {
            st.add("probes.history_with_sibling", 1);
        }
        if *nexts >= 2 && feat & (F_EMPTY | F_REPOLL | F_RESUME | F_SIBLING) != 0 {
            st.add("c09.nontrivial", 1);
            c09_set.insert(*hash ^ ((*feat as u64) << 40));
        }
    }
}

fn outcomes_json(e: &Exec) -> J {
    J::Arr(e.p2.recs.iter().map(|t| J::Arr(t.iter().map(|r| J::s(&r.outcome)).collect())).collect())
}

fn history_json(e: &Exec) -> J {
    let mut a = Vec::new();
    for (pn, p) in [(1, &e.p1), (2, &e.p2), (3, &e.p3)] {
        for (t, recs) in p.recs.iter().enumerate() {
            for (i, r) in recs.iter().enumerate() {
                a.push(J::s(&format!("pass{} t{} op{} steps={} -> {}", pn, t, i, r.steps, r.outcome)));
            }
        }
    }
    J::Arr(a)
}

fn violation_file(w: &World, e: &Exec, v: &simcore::run::Violation, seed: u64, run: u64, prop_profile: &str) -> J {
    let mut j = J::obj()
        .set("format", J::u(1))
        .set("property", J::s(v.property))
        .set("clause", J::s(&v.clause))
        .set("seed", J::u(seed))
        .set("run", J::u(run))
        .set("profile", J::s(prop_profile))
        .set("build", J::s(simcore::build_name()));
    if let J::Obj(o) = w.to_json(&e.p2.trace) {
        for (k, val) in o {
            j.put(&k, val);
        }
    }
    j.put("expected", J::obj().set("pass", J::u(1)).set("t", J::u(v.thread as u64)).set("op", J::u(v.op as u64)).set("outcome", J::s(&v.expected)));
    j.put("observed", J::obj().set("pass", J::u(v.pass as u64)).set("t", J::u(v.thread as u64)).set("op", J::u(v.op as u64)).set("outcome", J::s(&v.observed)));
    j.put("history", history_json(e));
    j
}

fn cmd_worker(args: &[String]) -> i32 {
    let prop = arg(args, "--prop").unwrap_or("C19").to_string();
    let seed = arg_u64(args, "--seed", 1);
    let first = arg_u64(args, "--first-override", arg_u64(args, "--first", 0));
    let stride = arg_u64(args, "--stride", 1);
    let count = arg_u64(args, "--count", 1000);
    let budget_ms = arg_u64(args, "--budget-ms", 20_000);
    let out = arg(args, "--out").unwrap_or("/verif/work/w").to_string();
    let cpu = arg(args, "--cpu").and_then(|s| s.parse::<usize>().ok());
    let max_viol = arg_u64(args, "--max-viol", 4);
    let evlog = args.iter().any(|a| a == "--evlog");
    if let Some(c) = cpu {
        driver::pin_to_cpu(c);
    }
    if args.iter().any(|a| a == "--only-pass1") {
        simcore::run::ONLY_PASS1.store(true, std::sync::atomic::Ordering::Relaxed);
    }
    let profile = profile_of(&prop);
    let addr_probe = std::env::var("VERIF_ADDR_PROBE").is_ok();
    let t0 = Instant::now();
    let mut st = Stats::default();
    let mut c19_set: HashSet<u64> = Default::default();
    let mut c09_set: HashSet<u64> = Default::default();
    let mut progress = std::fs::File::create(format!("{}.progress", out)).expect("progress file");
    let mut evout = if evlog { Some(std::io::BufWriter::new(std::fs::File::create(format!("{}.evlog", out)).expect("evlog"))) } else { None };
    let mut nviol = 0u64;
    let mut j = 0u64;
    while j < count {
        if j % 64 == 0 && t0.elapsed().as_millis() as u64 > budget_ms {
            break;
        }
        let run = first + j * stride;
        {
            use std::io::Seek;
            let _ = progress.seek(std::io::SeekFrom::Start(0));
            let _ = write!(progress, "{:>20}\n", run);
        }
        let w = gen_world(seed, run, profile);
        let e = execute(&w, None);
        if addr_probe {
            // debugging aid: is the allocator's address sequence a function of the slice?
            let sizes = [24usize, 40, 72, 136, 264, 520];
            let mut line = format!("{}", run);
            for sz in sizes {
                let v: Vec<u8> = Vec::with_capacity(sz);
                line.push_str(&format!(" {:x}", v.as_ptr() as usize));
            }
            eprintln!("ADDR {}", line);
        }
        account(&mut st, &w, &e, &mut c19_set, &mut c09_set);
        if let Some(o) = evout.as_mut() {
            let _ = writeln!(o, "{} {:016x}", run, e.ev);
        }
        for v in &e.viols {
            st.add(&format!("violations.{}", v.property), 1);
        }
        // one file per (world, property): the first violation of each property
        for p in ["C19", "C09"] {
            if let Some(v) = e.viols.iter().find(|v| v.property == p) {
                if nviol < max_viol || p == prop {
                    let mut f = violation_file(&w, &e, v, seed, run, &prop);
                    // which worlds this process executed before this one (process-global residue)
                    f.put("worker", J::obj().set("first", J::u(first)).set("stride", J::u(stride)).set("argv", J::Arr(args.iter().map(|a| J::s(a)).collect())));
                    let _ = std::fs::write(format!("{}.viol-{}-{}.json", out, p, run), f.to_pretty());
                    nviol += 1;
                }
            }
        }
        j += 1;
        if e.viols.iter().any(|v| v.property == prop) && st.get(&format!("violations.{}", prop)) >= max_viol {
            break;
        }
    }
    st.add("worlds_requested", count);
    st.add("wall_ms", t0.elapsed().as_millis() as u64);
    st.add("c19.distinct_nontrivial_local", c19_set.len() as u64);
    st.add("c09.distinct_nontrivial_local", c09_set.len() as u64);
    let mut hb: Vec<u8> = Vec::with_capacity((c19_set.len() + c09_set.len()) * 9);
    for h in &c19_set {
        hb.push(19);
        hb.extend_from_slice(&h.to_le_bytes());
    }
    for h in &c09_set {
        hb.push(9);
        hb.extend_from_slice(&h.to_le_bytes());
    }
    std::fs::write(format!("{}.hashes", out), hb).expect("write hashes");
    std::fs::write(format!("{}.stats.json", out), st.to_json().to_string()).expect("write stats");
    if let Some(mut o) = evout {
        let _ = o.flush();
    }
    0
}

fn load_replay(path: &str) -> Result<(J, World, Vec<Segment>), String> {
    let text = std::fs::read_to_string(path).map_err(|e| format!("{}: {}", path, e))?;
    let j = json::parse(&text)?;
    let (w, s) = World::from_json(&j)?;
    Ok((j, w, s))
}

/// Replay a file in this (fresh) process: exit 1 iff the recorded (property, clause) reproduces.
fn cmd_replay(args: &[String]) -> i32 {
    let path = match args.get(2) {
        Some(p) => p,
        None => {
            eprintln!("usage: iterworld replay <file>");
            return 2;
        }
    };
    let (j, w, s) = match load_replay(path) {
        Ok(x) => x,
        Err(e) => {
            eprintln!("HARNESS-ERROR: cannot load replay: {}", e);
            return 2;
        }
    };
    let want_build = j.get("build").and_then(|v| v.as_str()).unwrap_or("default");
    if want_build != simcore::build_name() {
        eprintln!("HARNESS-ERROR: this replay file was recorded by the '{}' build of the simulator, this binary is the '{}' build; use ./check replay <file>", want_build, simcore::build_name());
        return 2;
    }
    if let Some(c) = arg(args, "--cpu").and_then(|s| s.parse::<usize>().ok()) {
        driver::pin_to_cpu(c);
    } else {
        driver::pin_to_cpu(0);
    }
    let prop = j.get("property").and_then(|v| v.as_str()).unwrap_or("").to_string();
    let clause = j.get("clause").and_then(|v| v.as_str()).unwrap_or("").to_string();
    if j.get("worker_rerun").is_some() {
        // reproducible only inside the worker invocation that found it: re-run that slice
        let exe = std::env::current_exe().expect("exe");
        let scratch = std::env::temp_dir().join(format!("iterworld-rerun-{}", std::process::id()));
        let hit = driver::worker_rerun_reproduces(&exe, &j, &scratch);
        let verbose = !args.iter().any(|a| a == "--quiet");
        if verbose {
            println!("replay {}: property={} clause={} (worker slice re-run)", path, prop, clause);
            println!("{}", if hit { format!("REPRODUCED property={} clause={}", prop, clause) } else { "NOT-REPRODUCED".to_string() });
        }
        return if hit { 1 } else { 0 };
    }
    // Process-global residue: first re-execute the worlds that ran earlier in the same process.
    let prefix = prefix_runs(&j);
    if !prefix.is_empty() {
        let seed = j.get("seed").and_then(|v| v.as_u64()).unwrap_or(1);
        let profile = profile_of(j.get("profile").and_then(|v| v.as_str()).unwrap_or("C19"));
        for r in &prefix {
            let pw = gen_world(seed, *r, profile);
            let _ = execute(&pw, None);
        }
    }
    let e = execute(&w, Some(&s));
    let verbose = !args.iter().any(|a| a == "--quiet");
    if verbose && !prefix.is_empty() {
        println!("(executed {} earlier worlds of the same process first: {:?}{})", prefix.len(), &prefix[..prefix.len().min(8)], if prefix.len() > 8 { " ..." } else { "" });
    }
    let hit: Vec<_> = e.viols.iter().filter(|v| v.property == prop && v.clause == clause).collect();
    if verbose {
        println!("replay {}: property={} clause={} threads={} ops={} schedule_segments={}", path, prop, clause, w.threads.len(), w.nops(), s.len());
        println!("event-hash {:016x}", e.ev);
        for v in &e.viols {
            println!("  violation property={} clause={} pass={} t{} op{} expected={} observed={}", v.property, v.clause, v.pass, v.thread, v.op, v.expected, v.observed);
        }
    }
    if hit.is_empty() {
        if verbose {
            println!("NOT-REPRODUCED");
        }
        0
    } else {
        if verbose {
            println!("REPRODUCED property={} clause={}", prop, clause);
        }
        1
    }
}

/// The earlier worlds to execute first, from a replay file's "prefix" member:
/// {"runs":[...]} (explicit) or {"first":k,"stride":s,"upto":run} (arithmetic).
fn prefix_runs(j: &J) -> Vec<u64> {
    let p = match j.get("prefix") {
        Some(p) => p,
        None => return Vec::new(),
    };
    if let Some(a) = p.get("runs").and_then(|v| v.as_arr()) {
        return a.iter().filter_map(|v| v.as_u64()).collect();
    }
    let first = p.get("first").and_then(|v| v.as_u64()).unwrap_or(0);
    let stride = p.get("stride").and_then(|v| v.as_u64()).unwrap_or(1).max(1);
    let upto = p.get("upto").and_then(|v| v.as_u64()).unwrap_or(0);
    let mut out = Vec::new();
    let mut r = first;
    while r < upto {
        out.push(r);
        r += stride;
    }
    out
}

fn cmd_shrink(args: &[String]) -> i32 {
    let (inp, outp) = match (args.get(2), args.get(3)) {
        (Some(a), Some(b)) => (a, b),
        _ => {
            eprintln!("usage: iterworld shrink <in> <out>");
            return 2;
        }
    };
    driver::pin_to_cpu(arg(args, "--cpu").and_then(|s| s.parse::<usize>().ok()).unwrap_or(0));
    let (j, w, s) = match load_replay(inp) {
        Ok(x) => x,
        Err(e) => {
            eprintln!("HARNESS-ERROR: {}", e);
            return 2;
        }
    };
    let prop = j.get("property").and_then(|v| v.as_str()).unwrap_or("").to_string();
    let clause = j.get("clause").and_then(|v| v.as_str()).unwrap_or("").to_string();
    if !prefix_runs(&j).is_empty() {
        println!("shrink: file depends on earlier worlds of its process; the driver minimises the prefix instead");
        return 3;
    }
    let mut sh = Shrinker { target: Target { property: prop.clone(), clause: clause.clone() }, evals: 0, max_evals: arg_u64(args, "--max-evals", 6000) as u32 };
    if !sh.fails(&w, &s) {
        println!("shrink: input does not reproduce in-process");
        return 3;
    }
    let (mw, ms) = sh.shrink(w, s);
    // final record
    let e = execute(&mw, Some(&ms));
    let v = match e.viols.iter().find(|v| v.property == prop && v.clause == clause) {
        Some(v) => v.clone(),
        None => {
            println!("shrink: minimised world lost the violation");
            return 3;
        }
    };
    let mut f = violation_file(&mw, &e, &v, j.get("seed").and_then(|v| v.as_u64()).unwrap_or(0), j.get("run").and_then(|v| v.as_u64()).unwrap_or(0), j.get("profile").and_then(|v| v.as_str()).unwrap_or(""));
    f.put("minimised", J::Bool(true));
    f.put("shrink_evaluations", J::u(sh.evals as u64));
    // the explicit schedule actually used (not the re-recorded trace) is what replays
    f.put("schedule", simcore::world::schedule_to_json(&ms));
    if std::fs::write(outp, f.to_pretty()).is_err() {
        return 2;
    }
    println!("shrink: {} evaluations; threads={} ops={} segments={}", sh.evals, mw.threads.len(), mw.nops(), ms.len());
    0
}

fn cmd_gen(args: &[String]) -> i32 {
    let prop = arg(args, "--prop").unwrap_or("C19");
    let w = gen_world(arg_u64(args, "--seed", 1), arg_u64(args, "--run", 0), profile_of(prop));
    let e = execute(&w, None);
    println!("{}", w.to_json(&e.p2.trace).set("outcomes_pass2", outcomes_json(&e)).to_pretty());
    0
}

fn main() {
    let args: Vec<String> = std::env::args().collect();
    // fork the pristine-oracle zygote while this process is single-threaded and has run no regress code
    // pin first: the zygote and its grandchildren inherit the affinity, so a query is a
    // same-CPU context switch instead of an idle-vCPU wake-up
    if let Some(c) = arg(&args, "--cpu").and_then(|s| s.parse::<usize>().ok()) {
        driver::pin_to_cpu(c);
    } else if matches!(args.get(1).map(|s| s.as_str()), Some("replay") | Some("shrink") | Some("gen")) {
        driver::pin_to_cpu(0);
    }
    if matches!(args.get(1).map(|s| s.as_str()), Some("worker") | Some("replay") | Some("shrink") | Some("gen")) && std::env::var("VERIF_NO_PRISTINE").is_err() {
        simcore::pristine::start(simcore::run::pristine_handler);
    }
    let code = match args.get(1).map(|s| s.as_str()) {
        Some("worker") => cmd_worker(&args),
        Some("replay") => cmd_replay(&args),
        Some("shrink") => cmd_shrink(&args),
        Some("gen") => cmd_gen(&args),
        Some("drive") => driver::cmd_drive(&args),
        Some("selftest-determinism") => driver::cmd_selftest_determinism(&args),
        _ => {
            eprintln!("usage: iterworld <worker|drive|replay|shrink|gen|selftest-determinism> ...");
            2
        }
    };
    std::process::exit(code);
}
