//! Batch driver: runs pinned worker processes, merges their statistics, confirms
//! and minimises violations in fresh processes, writes the evidence file.

use crate::json::{self, J};
use crate::stats::Stats;
use std::collections::HashSet;
use std::path::{Path, PathBuf};
use std::process::{Child, Command, Stdio};
use std::time::Instant;

extern "C" {
    fn sched_setaffinity(pid: i32, cpusetsize: usize, mask: *const u64) -> i32;
    fn sysconf(name: i32) -> i64;
}

/// Number of online CPUs, independent of this process's current affinity mask
/// (std::thread::available_parallelism shrinks to 1 once the process is pinned).
pub fn online_cpus() -> usize {
    const SC_NPROCESSORS_ONLN: i32 = 84;
    let n = unsafe { sysconf(SC_NPROCESSORS_ONLN) };
    if n >= 1 {
        n as usize
    } else {
        1
    }
}

/// Pin the whole process (all its future threads) to one CPU. Only one thread of
/// a world ever runs, so one CPU per simulator process loses nothing, and a baton
/// hand-off becomes an in-kernel context switch instead of an idle-vCPU wake-up.
pub fn pin_to_cpu(cpu: usize) {
    let cpu = cpu % online_cpus().max(1);
    let mut mask = [0u64; 16];
    mask[cpu / 64] |= 1u64 << (cpu % 64);
    unsafe {
        sched_setaffinity(0, std::mem::size_of_val(&mask), mask.as_ptr());
    }
}

fn arg<'a>(args: &'a [String], name: &str) -> Option<&'a str> {
    args.iter().position(|a| a == name).and_then(|i| args.get(i + 1)).map(|s| s.as_str())
}

pub fn verif_root() -> PathBuf {
    std::env::var("VERIF_ROOT").map(PathBuf::from).unwrap_or_else(|_| PathBuf::from("/verif"))
}

/// Where evidence/, replays/ and work/ go (self-tests redirect this away from /verif).
pub fn out_root() -> PathBuf {
    std::env::var("VERIF_OUT").map(PathBuf::from).unwrap_or_else(|_| verif_root())
}

pub fn env_seed() -> u64 {
    std::env::var("VERIF_SEED").ok().and_then(|s| s.trim().parse::<i64>().ok()).map(|v| v as u64 & 0x7fff_ffff_ffff_ffff).unwrap_or(1)
}

#[derive(Clone, Debug)]
pub struct KnownFinding {
    pub status: String,
    pub property: String,
    pub clause: String,
    pub note: String,
    pub raw: J,
}

pub fn load_known_findings() -> Vec<KnownFinding> {
    let p = verif_root().join("known_findings.json");
    let text = match std::fs::read_to_string(&p) {
        Ok(t) => t,
        Err(_) => return Vec::new(),
    };
    let j = match json::parse(&text) {
        Ok(j) => j,
        Err(e) => {
            eprintln!("HARNESS-ERROR: known_findings.json unreadable: {}", e);
            std::process::exit(2);
        }
    };
    let mut out = Vec::new();
    if let Some(a) = j.as_arr() {
        for e in a {
            out.push(KnownFinding {
                status: e.get("status").and_then(|v| v.as_str()).unwrap_or("").to_string(),
                property: e.get("property").and_then(|v| v.as_str()).unwrap_or("").to_string(),
                clause: e.get("clause").and_then(|v| v.as_str()).unwrap_or("").to_string(),
                note: e.get("note").and_then(|v| v.as_str()).unwrap_or("").to_string(),
                raw: e.clone(),
            });
        }
    }
    out
}

pub struct WorkerSpec {
    pub exe: PathBuf,
    pub args: Vec<String>,
}

pub struct BatchResult {
    pub stats: Stats,
    pub distinct: std::collections::HashMap<u8, u64>,
    pub viol_files: Vec<PathBuf>,
    pub crashed: Vec<(usize, Option<i32>, Option<u64>)>,
    pub harness_error: bool,
    pub wall_s: f64,
}

/// Run `nworkers` pinned worker processes of `exe worker ...` and merge.
pub fn run_batch(exe: &Path, prop: &str, seed: u64, worlds: u64, budget_ms: u64, nworkers: usize, workdir: &Path, extra: &[String]) -> BatchResult {
    let t0 = Instant::now();
    let _ = std::fs::remove_dir_all(workdir);
    std::fs::create_dir_all(workdir).expect("workdir");
    let per = (worlds + nworkers as u64 - 1) / nworkers as u64;
    let mut kids: Vec<(usize, Child)> = Vec::new();
    for k in 0..nworkers {
        let out = workdir.join(format!("w{}", k));
        let mut c = Command::new(exe);
        c.arg("worker")
            .args(["--prop", prop])
            .args(["--seed", &seed.to_string()])
            .args(["--first", &k.to_string()])
            .args(["--stride", &nworkers.to_string()])
            .args(["--count", &per.to_string()])
            .args(["--budget-ms", &budget_ms.to_string()])
            .args(["--out", out.to_str().unwrap()])
            .args(["--cpu", &k.to_string()])
            .args(extra)
            .stdout(Stdio::inherit())
            .stderr(Stdio::inherit());
        kids.push((k, c.spawn().expect("spawn worker")));
    }
    let mut res = BatchResult { stats: Stats::default(), distinct: Default::default(), viol_files: Vec::new(), crashed: Vec::new(), harness_error: false, wall_s: 0.0 };
    let mut sets: std::collections::HashMap<u8, HashSet<u64>> = Default::default();
    for (k, mut ch) in kids {
        let status = ch.wait().expect("wait worker");
        let out = workdir.join(format!("w{}", k));
        if status.code() == Some(2) {
            res.harness_error = true;
            continue;
        }
        if !status.success() {
            let prog = std::fs::read_to_string(format!("{}.progress", out.display())).ok().and_then(|s| s.trim().parse::<u64>().ok());
            res.crashed.push((k, status.code(), prog));
            continue;
        }
        if let Ok(t) = std::fs::read_to_string(format!("{}.stats.json", out.display())) {
            if let Ok(j) = json::parse(&t) {
                res.stats.merge(&Stats::from_json(&j));
            }
        }
        if let Ok(b) = std::fs::read(format!("{}.hashes", out.display())) {
            for rec in b.chunks_exact(9) {
                let mut x = [0u8; 8];
                x.copy_from_slice(&rec[1..9]);
                sets.entry(rec[0]).or_default().insert(u64::from_le_bytes(x));
            }
        }
    }
    for (k, s) in sets {
        res.distinct.insert(k, s.len() as u64);
    }
    if let Ok(rd) = std::fs::read_dir(workdir) {
        let mut v: Vec<PathBuf> = rd.filter_map(|e| e.ok()).map(|e| e.path()).filter(|p| p.file_name().and_then(|n| n.to_str()).map(|n| n.contains(".viol-")).unwrap_or(false)).collect();
        v.sort();
        res.viol_files = v;
    }
    res.wall_s = t0.elapsed().as_secs_f64();
    res
}

fn run_status(exe: &Path, args: &[&str]) -> (Option<i32>, String) {
    match Command::new(exe).args(args).output() {
        Ok(o) => (o.status.code(), String::from_utf8_lossy(&o.stdout).to_string() + &String::from_utf8_lossy(&o.stderr)),
        Err(e) => (None, e.to_string()),
    }
}

pub struct Confirmed {
    pub path: PathBuf,
    pub property: String,
    pub clause: String,
    pub minimised: bool,
}

/// Confirm a violation file by replaying it in a fresh process, minimise it in
/// another, replay the minimised file once more. Returns None if it does not
/// reproduce (harness nondeterminism).
pub fn confirm_and_minimise(exe: &Path, vf: &Path, dest: &Path) -> Option<Confirmed> {
    let j = json::parse(&std::fs::read_to_string(vf).ok()?).ok()?;
    let property = j.get("property").and_then(|v| v.as_str()).unwrap_or("").to_string();
    let clause = j.get("clause").and_then(|v| v.as_str()).unwrap_or("").to_string();
    let (code, _) = run_status(exe, &["replay", vf.to_str()?, "--quiet"]);
    if code != Some(1) {
        // Not reproducible alone: the run may depend on process-global residue left by the
        // worlds the same worker executed before it. Replay unit becomes (prefix worlds, world).
        return confirm_with_prefix(exe, &j, vf, dest, property, clause);
    }
    let tmp = dest.with_extension("min.tmp");
    let (scode, sout) = run_status(exe, &["shrink", vf.to_str()?, tmp.to_str()?]);
    if scode == Some(0) {
        let (rcode, _) = run_status(exe, &["replay", tmp.to_str()?, "--quiet"]);
        if rcode == Some(1) {
            let _ = std::fs::rename(&tmp, dest);
            print!("{}", sout);
            return Some(Confirmed { path: dest.to_path_buf(), property, clause, minimised: true });
        }
    }
    let _ = std::fs::remove_file(&tmp);
    // keep the unminimised but confirmed file
    std::fs::copy(vf, dest).ok()?;
    Some(Confirmed { path: dest.to_path_buf(), property, clause, minimised: false })
}

/// Last resort for a violation that reproduces neither alone nor after re-executing the
/// earlier worlds of its process: re-run the *worker invocation itself* up to and including
/// the world (same loop, same accounting, same files - hence the same allocation history).
/// Returns true if the worker again writes a violation file for (property, run) with the
/// same clause. This is what makes defects keyed on addresses reproducible.
pub fn worker_rerun_reproduces(_exe: &Path, j: &J, _scratch: &Path) -> bool {
    // The heap's evolution is sensitive to its initial state (argv strings live in it), so the
    // re-run uses the recorded command line verbatim: same binary path, same --out prefix.
    let argv: Vec<String> = match j.get("worker").and_then(|w| w.get("argv")).and_then(|a| a.as_arr()) {
        Some(a) => a.iter().filter_map(|v| v.as_str().map(|s| s.to_string())).collect(),
        None => return false,
    };
    if argv.len() < 2 {
        return false;
    }
    let run = match j.get("run").and_then(|v| v.as_u64()) {
        Some(r) => r,
        None => return false,
    };
    let property = j.get("property").and_then(|v| v.as_str()).unwrap_or("");
    let clause = j.get("clause").and_then(|v| v.as_str()).unwrap_or("");
    let out = match argv.iter().position(|a| a == "--out").and_then(|i| argv.get(i + 1)) {
        Some(o) => o.clone(),
        None => return false,
    };
    if let Some(dir) = Path::new(&out).parent() {
        let _ = std::fs::create_dir_all(dir);
    }
    let vf = format!("{}.viol-{}-{}.json", out, property, run);
    let keep = format!("{}.orig", vf);
    let had_orig = std::fs::rename(&vf, &keep).is_ok();
    let _ = std::fs::remove_file(format!("{}.progress", out)); // a stale one would stop the re-run at once
    let mut child = match Command::new(&argv[0]).args(&argv[1..]).stdout(Stdio::null()).stderr(Stdio::null()).spawn() {
        Ok(c) => c,
        Err(_) => return false,
    };
    // stop it from outside once it is past the world in question (nothing inside the worker
    // may differ from the original invocation)
    let progress = format!("{}.progress", out);
    let t0 = Instant::now();
    loop {
        match child.try_wait() {
            Ok(Some(_)) => break,
            Ok(None) => {}
            Err(_) => break,
        }
        let at = std::fs::read_to_string(&progress).ok().and_then(|s| s.trim().parse::<u64>().ok()).unwrap_or(0);
        if at > run || t0.elapsed().as_secs() > 3600 {
            let _ = child.kill();
            let _ = child.wait();
            break;
        }
        std::thread::sleep(std::time::Duration::from_millis(50));
    }
    let ok = std::fs::read_to_string(&vf).ok().and_then(|t| json::parse(&t).ok()).map(|v| v.get("clause").and_then(|c| c.as_str()) == Some(clause)).unwrap_or(false);
    if had_orig {
        let _ = std::fs::rename(&keep, &vf);
    }
    ok
}

fn confirm_by_worker_rerun(exe: &Path, j: &J, dest: &Path, property: String, clause: String) -> Option<Confirmed> {
    let scratch = dest.with_extension("rerun.d");
    if !worker_rerun_reproduces(exe, j, &scratch) {
        return None;
    }
    let first = j.get("worker").and_then(|w| w.get("first")).and_then(|v| v.as_u64())?;
    let stride = j.get("worker").and_then(|w| w.get("stride")).and_then(|v| v.as_u64())?.max(1);
    let run = j.get("run").and_then(|v| v.as_u64())?;
    let mut jj = j.clone();
    jj.put("worker_rerun", J::obj().set("first", J::u(first)).set("stride", J::u(stride)).set("count", J::u((run - first) / stride + 1)));
    jj.put("worker_rerun_note", J::s("this violation reproduces only inside the worker invocation that found it (same worlds, same accounting, same allocation history - typically state keyed on addresses): replay re-runs worker.argv verbatim (same binary path, same --out prefix: the heap's initial state is part of the recipe) and looks for the same (run, clause)"));
    jj.put("minimised", J::Bool(false));
    std::fs::write(dest, jj.to_pretty()).ok()?;
    println!("reproduced by re-running the worker slice first={} stride={} up to run {}", first, stride, run);
    Some(Confirmed { path: dest.to_path_buf(), property, clause, minimised: false })
}

fn confirm_with_prefix(exe: &Path, j: &J, vf: &Path, dest: &Path, property: String, clause: String) -> Option<Confirmed> {
    let first = j.get("worker").and_then(|w| w.get("first")).and_then(|v| v.as_u64())?;
    let stride = j.get("worker").and_then(|w| w.get("stride")).and_then(|v| v.as_u64())?.max(1);
    let run = j.get("run").and_then(|v| v.as_u64())?;
    let mut runs: Vec<u64> = Vec::new();
    let mut r = first;
    while r < run {
        runs.push(r);
        r += stride;
    }
    if runs.is_empty() {
        return confirm_by_worker_rerun(exe, j, dest, property, clause);
    }
    let tmp = dest.with_extension("prefix.tmp");
    let try_prefix = |runs: &[u64]| -> bool {
        let mut jj = j.clone();
        jj.put("prefix", J::obj().set("runs", J::Arr(runs.iter().map(|r| J::u(*r)).collect())));
        if std::fs::write(&tmp, jj.to_pretty()).is_err() {
            return false;
        }
        run_status(exe, &["replay", tmp.to_str().unwrap_or(""), "--quiet"]).0 == Some(1)
    };
    if !try_prefix(&runs) {
        let _ = std::fs::remove_file(&tmp);
        return confirm_by_worker_rerun(exe, j, dest, property, clause);
    }
    // delta-debug the prefix: drop chunks of earlier worlds while the violation persists
    let t0 = Instant::now();
    let mut spawns = 0;
    let mut chunk = (runs.len() / 2).max(1);
    loop {
        let mut i = 0;
        while i < runs.len() && spawns < 400 && t0.elapsed().as_secs() < 240 {
            let mut cand = runs.clone();
            let end = (i + chunk).min(cand.len());
            cand.drain(i..end);
            spawns += 1;
            if try_prefix(&cand) {
                runs = cand;
            } else {
                i += chunk;
            }
        }
        if chunk == 1 || spawns >= 400 || t0.elapsed().as_secs() >= 240 {
            break;
        }
        chunk = (chunk / 2).max(1);
    }
    let mut jj = j.clone();
    jj.put("prefix", J::obj().set("runs", J::Arr(runs.iter().map(|r| J::u(*r)).collect())));
    jj.put("prefix_note", J::s("this violation needs process-global residue: the listed worlds (generated from seed/profile) are executed first in the same process, then this world"));
    jj.put("minimised", J::Bool(false));
    jj.put("prefix_minimised", J::Bool(true));
    let _ = std::fs::remove_file(&tmp);
    std::fs::write(dest, jj.to_pretty()).ok()?;
    if run_status(exe, &["replay", dest.to_str()?, "--quiet"]).0 != Some(1) {
        return None;
    }
    let _ = vf;
    println!("prefix minimised to {} earlier world(s) in {} replays", runs.len(), spawns);
    Some(Confirmed { path: dest.to_path_buf(), property, clause, minimised: false })
}

fn tier_defaults(prop: &str, tier: &str) -> (u64, u64) {
    // (worlds, wall budget of the simulation in ms)
    match (prop, tier) {
        (_, "thorough") => (30_000_000, 900_000),
        _ => (240_000, 25_000),
    }
}

pub fn write_evidence(prop: &str, tier: &str, seed: u64, st: &Stats, distinct: u64, rule: &str, wall_s: f64, violations: u64, extra: Vec<(String, J)>) {
    // C09: a case is one iterator history; C19: a case is one world under one schedule
    let worlds = st.get("evaluations");
    let evals = if prop == "C09" { st.get("c09.iterator_histories") } else { worlds };
    let sim_wall = (st.get("wall_ms") as f64 / 1000.0).max(0.001);
    let mut cov = J::obj()
        .set("evaluations", J::u(evals))
        .set("distinct_nontrivial", J::u(distinct))
        .set("rule", J::s(rule))
        .set("samples", J::Arr(st.samples.clone()))
        .set("worlds", J::u(worlds))
        .set("runs_per_hour", J::Num(((worlds as f64) / wall_s.max(0.001) * 3600.0).round()))
        .set("worker_cpu_seconds", J::Num((sim_wall * 100.0).round() / 100.0))
        .set("simulated_steps", J::u(st.get("simulated_steps")))
        .set("simulated_time_unit", J::s("one hook call = one interpreter step (bytecode instruction, backtrack pop, start offset tried, capture slot reported)"))
        .set("faults_fired", st.group("faults"))
        .set("scheduler", st.group("sched"))
        .set("strategies", st.group("strategy"))
        .set("threads_per_world", st.group("threads"))
        .set("sites", st.group("sites"))
        .set("probes", st.group("probes"))
        .set("max_searches_in_flight_on_one_object", J::u(st.get("max.inflight_same_regex_object")))
        .set("ops", st.group("ops"))
        .set("comparisons", st.group("cmp"))
        .set("reference_model", st.group("model"))
        .set("fuel_exhausted", J::u(st.get("faults.fuel")))
        .set("engine_panics_unclaimed", J::u(st.get("engine_panics_unclaimed")))
        .set("compile_errors_as_outcomes", J::u(st.get("compile_errors")))
        .set("c19_nontrivial_worlds", J::u(st.get("c19.nontrivial")))
        .set("c09_nontrivial_histories", J::u(st.get("c09.nontrivial")))
        .set("c09_iterator_histories", J::u(st.get("c09.iterator_histories")))
        .set("other_property_violations_seen", J::obj().set("C19", J::u(st.get("violations.C19"))).set("C09", J::u(st.get("violations.C09"))))
        .set(
            "components",
            J::obj()
                .set("real", J::Arr(["parser", "optimizer", "emitter", "backtracking executor", "PikeVM executor", "exec::Matches iterator", "Regex::replace*", "memchr", "std threads (parked/released one at a time)"].iter().map(|s| J::s(s)).collect()))
                .set("stubbed", J::Arr(["OS thread scheduler -> seeded baton scheduler (only the choice of who runs is simulated)"].iter().map(|s| J::s(s)).collect())),
        )
        .set("not_injected_no_such_surface", J::Arr(["message loss/dup/reorder", "partitions", "clock skew", "disk errors / torn writes", "allocation failure (aborts)"].iter().map(|s| J::s(s)).collect()));
    let zero_probes: Vec<J> = st.c.iter().filter(|(k, v)| k.starts_with("probes.") && **v == 0).map(|(k, _)| J::s(k)).collect();
    cov.put("probes_stuck_at_zero", J::Arr(zero_probes));
    for (k, v) in extra {
        cov.put(&k, v);
    }
    let ev = J::obj()
        .set("property_id", J::s(prop))
        .set("tier", J::s(tier))
        .set("seed", J::Int(seed as i64))
        .set("level", J::s("exploration"))
        .set("coverage", cov)
        .set(
            "assumptions",
            J::Arr(
                if prop == "C20" {
                    vec![
                        "the match reference is find_iter of the same engine (C09/C01 territory cancels out by design)",
                        "the two cursors may tile the haystack independently or meet exactly; both are accepted, as std's own searchers meet in the middle",
                        "steps skipped inside std's provided methods (next_match, next_reject, ...) are not observable; a None from them counts the rest as covered",
                        "a clean batch is evidence over the sampled worlds and interleavings, not proof",
                    ]
                } else {
                    vec![
                        "the baton scheduler preempts only at hook sites (between interpreter instructions); code between two sites is interleaved only by the Miri stratum",
                        "the references are the same engine run in isolation (fresh objects; in sampled worlds a pristine forked process): defects that are wrong identically in isolation are out of scope (C01-C06 territory)",
                        "a search unwound by the harness (cancel / fuel) cannot happen in real use; a PoisonError panic after such an unwind is counted, not reported",
                        "a clean batch is evidence over the sampled worlds and schedules, not proof",
                        "hook sites are add-only and compile to nothing with the guard off",
                    ]
                }
                .iter()
                .map(|s| J::s(s))
                .collect(),
            ),
        )
        .set("wall_s", J::Num((wall_s * 100.0).round() / 100.0))
        .set("violations", J::Int(violations as i64));
    let dir = out_root().join("evidence");
    let _ = std::fs::create_dir_all(&dir);
    std::fs::write(dir.join(format!("{}.json", prop)), ev.to_pretty()).expect("write evidence");
}

/// Compare per-run event hashes between two splits of the same runs.
pub fn determinism_check(exe: &Path, prop: &str, seed: u64, runs: u64, splits: &[usize], workdir: &Path) -> (u64, u64) {
    let mut maps: Vec<std::collections::BTreeMap<u64, String>> = Vec::new();
    for (si, &nw) in splits.iter().enumerate() {
        let wd = workdir.join(format!("det{}", si));
        let r = run_batch(exe, prop, seed, runs, 600_000, nw, &wd, &["--evlog".to_string()]);
        if r.harness_error || !r.crashed.is_empty() {
            return (u64::MAX, 0);
        }
        let mut m = std::collections::BTreeMap::new();
        for k in 0..nw {
            if let Ok(t) = std::fs::read_to_string(wd.join(format!("w{}.evlog", k))) {
                for l in t.lines() {
                    if let Some((a, b)) = l.split_once(' ') {
                        if let Ok(run) = a.parse::<u64>() {
                            m.insert(run, b.to_string());
                        }
                    }
                }
            }
        }
        maps.push(m);
        let _ = std::fs::remove_dir_all(&wd);
    }
    let mut mism = 0;
    let mut compared = 0;
    for run in 0..runs {
        let first = maps[0].get(&run);
        if first.is_none() {
            continue;
        }
        compared += 1;
        for m in &maps[1..] {
            if m.get(&run) != first {
                mism += 1;
                break;
            }
        }
    }
    (mism, compared)
}

pub fn cmd_selftest_determinism(args: &[String]) -> i32 {
    let exe = std::env::current_exe().expect("exe");
    let seeds: u64 = arg(args, "--runs").and_then(|s| s.parse().ok()).unwrap_or(2000);
    let seed = env_seed();
    let wd = out_root().join("work").join("selftest-det");
    let mut bad = 0;
    for prop in ["C19", "C09"] {
        // each run executed in processes at worker counts 1, 4 and 16, twice at 16
        let (m, c) = determinism_check(&exe, prop, seed, seeds, &[1, 4, 16, 16], &wd);
        println!("determinism {}: runs compared {} mismatches {}", prop, c, m);
        if m != 0 || c != seeds {
            bad += 1;
        }
    }
    let _ = std::fs::remove_dir_all(&wd);
    if bad == 0 {
        println!("determinism selftest: OK");
        0
    } else {
        println!("HARNESS-ERROR: determinism selftest failed");
        2
    }
}

pub fn cmd_drive(args: &[String]) -> i32 {
    let t0 = Instant::now();
    let exe = std::env::current_exe().expect("exe");
    let prop = arg(args, "--prop").unwrap_or("C19").to_string();
    let tier = arg(args, "--tier").unwrap_or("quick").to_string();
    let seed = env_seed();
    let (dw, db) = tier_defaults(&prop, &tier);
    let worlds = arg(args, "--worlds").and_then(|s| s.parse().ok()).or_else(|| std::env::var("VERIF_WORLDS").ok().and_then(|s| s.parse().ok())).unwrap_or(dw);
    let budget_ms = arg(args, "--budget-ms").and_then(|s| s.parse().ok()).or_else(|| std::env::var("VERIF_BUDGET_S").ok().and_then(|s| s.parse::<u64>().ok()).map(|s| s * 1000)).unwrap_or(db);
    let ncpu = online_cpus();
    let nworkers = arg(args, "--workers").and_then(|s| s.parse().ok()).unwrap_or(ncpu.min(16));
    let root = out_root();
    let workdir = root.join("work").join(format!("{}-{}", prop, tier));
    println!("VERIF_SEED={} property={} tier={} worlds<={} budget={}s workers={}", seed, prop, tier, worlds, budget_ms / 1000, nworkers);

    let r = run_batch(&exe, &prop, seed, worlds, budget_ms, nworkers, &workdir, &[]);
    if r.harness_error {
        println!("HARNESS-ERROR: a worker reported a harness error");
        return 2;
    }
    if r.stats.get("evaluations") == 0 && r.crashed.is_empty() {
        println!("HARNESS-ERROR: no world was executed");
        return 2;
    }
    // Build-configuration strata: the same simulator linked against regress built with its
    // optional cargo features (VERIF_ALT_BUILDS="name=exe,name=exe", set by ./check). Each
    // stratum gets its own derived seed, so it explores other worlds than the default build.
    let mut alt: Vec<(String, PathBuf, BatchResult)> = Vec::new();
    if let Ok(spec) = std::env::var("VERIF_ALT_BUILDS") {
        let alt_budget_ms = std::env::var("VERIF_ALT_BUDGET_S").ok().and_then(|s| s.parse::<u64>().ok()).map(|s| s * 1000).unwrap_or(if tier == "thorough" { 120_000 } else { 5_000 });
        for (i, item) in spec.split(',').filter(|s| !s.is_empty()).enumerate() {
            let (name, path) = match item.split_once('=') {
                Some(x) => x,
                None => continue,
            };
            let aexe = PathBuf::from(path);
            let aseed = seed.wrapping_mul(1_000_003).wrapping_add(i as u64 + 1);
            let ar = run_batch(&aexe, &prop, aseed, worlds, alt_budget_ms, nworkers, &workdir.join(format!("alt-{}", name)), &[]);
            if ar.harness_error {
                println!("HARNESS-ERROR: a worker of build stratum {} reported a harness error", name);
                return 2;
            }
            if ar.stats.get("evaluations") == 0 && ar.crashed.is_empty() {
                println!("HARNESS-ERROR: build stratum {} executed no world", name);
                return 2;
            }
            println!("build stratum {}: seed={} worlds={} simulated_steps={} switches={} wall={:.1}s", name, aseed, ar.stats.get("evaluations"), ar.stats.get("simulated_steps"), ar.stats.get("sched.switches"), ar.wall_s);
            alt.push((name.to_string(), aexe, ar));
        }
    }
    let mut violations: Vec<Confirmed> = Vec::new();
    let mut notes: Vec<String> = Vec::new();
    let replays = root.join("replays");
    let _ = std::fs::create_dir_all(&replays);

    let mut unreproducible = 0;
    let mut seen_clauses: HashSet<String> = HashSet::new();
    // (label, binary, batch, seed); index 0 is the default build. Extra batches are appended
    // below when a violation was seen that does not reproduce (see there).
    let mut extra_batches: Vec<(String, PathBuf, BatchResult, u64)> = Vec::new();
    let mut retries = 0u64;
    let mut si = 0usize;
    loop {
        let nfixed = 1 + alt.len();
        if si >= nfixed + extra_batches.len() {
            // A violation that reproduces neither alone, nor after its process' earlier worlds, nor
            // in a re-run of its worker slice depends on something the simulator does not own
            // (allocator addresses under thread timing). It is still a symptom: look for a
            // reproducible manifestation in up to three more batches from derived seeds.
            if violations.is_empty() && unreproducible > 0 && retries < 3 {
                retries += 1;
                let rseed = seed.wrapping_mul(1_000_033).wrapping_add(retries);
                println!("{} violation file(s) did not reproduce; extra batch {} (seed {}) to look for a reproducible manifestation", unreproducible, retries, rseed);
                let rb = run_batch(&exe, &prop, rseed, worlds, budget_ms, nworkers, &workdir.join(format!("retry-{}", retries)), &[]);
                if rb.harness_error {
                    println!("HARNESS-ERROR: a worker reported a harness error");
                    return 2;
                }
                extra_batches.push((format!("retry{}", retries), exe.clone(), rb, rseed));
                continue;
            }
            break;
        }
        let (label, exe, r, seed): (&str, &Path, &BatchResult, u64) = if si == 0 {
            ("default", exe.as_path(), &r, seed)
        } else if si < nfixed {
            let (n, e, b) = &alt[si - 1];
            (n.as_str(), e.as_path(), b, seed.wrapping_mul(1_000_003).wrapping_add(si as u64))
        } else {
            let (n, e, b, sd) = &extra_batches[si - nfixed];
            (n.as_str(), e.as_path(), b, *sd)
        };
        si += 1;
        let exe = exe.to_path_buf();
        let suffix = if label == "default" || label.starts_with("retry") { String::new() } else { format!("-{}", label) };
        // abnormal worker exits. Exit by signal (segfault, abort) is attributed to the world that
        // was running; a plain non-zero exit code is a Rust panic in the harness itself.
        for (k, code, prog) in &r.crashed {
            if code.is_some() {
                println!("HARNESS-ERROR: worker {} exited with code {:?} (panic in the harness, see stderr above)", k, code);
                return 2;
            }
            match prog {
                None => {
                    println!("HARNESS-ERROR: worker {} was killed by a signal with no progress record", k);
                    return 2;
                }
                Some(run) => {
                    // does the world crash again, alone, in a fresh process? and with the sequential pass only?
                    let wd2 = workdir.join(format!("crash{}{}", k, suffix));
                    let rr = run_batch(&exe, &prop, seed, 1, 60_000, 1, &wd2, &["--first-override".to_string(), run.to_string()]);
                    if rr.crashed.is_empty() {
                        println!("HARNESS-ERROR: worker {} crashed at run {} but the world does not crash alone", k, run);
                        return 2;
                    }
                    let rr1 = run_batch(&exe, &prop, seed, 1, 60_000, 1, &wd2, &["--first-override".to_string(), run.to_string(), "--only-pass1".to_string()]);
                    let sequential_too = !rr1.crashed.is_empty();
                    let f = replays.join(format!("{}-{}-{}{}-abort.txt", prop, seed, run, suffix));
                    let _ = std::fs::write(&f, format!("process killed by a signal while executing world seed={} run={} profile={} build={}; crashes in the sequential pass alone: {}; reproduce: {} worker --prop {} --seed {} --first {} --count 1\n", seed, run, prop, label, sequential_too, exe.display(), prop, seed, run));
                    if !sequential_too && prop == "C19" {
                        violations.push(Confirmed { path: f, property: prop.clone(), clause: "process-abort-only-when-shared".into(), minimised: false });
                    } else {
                        notes.push(format!("process abort in world run={} build={} (sequential pass alone crashes: {}) - unclaimed C06-class observation, see {}", run, label, sequential_too, f.display()));
                        println!("NOTE: process abort in world run={} build={} is not attributable to {} (unclaimed observation); worker {} stopped early", run, label, prop, k);
                    }
                }
            }
        }

        // violations of this property found by workers: confirm + minimise (distinct clauses, at most 3)
        for vf in &r.viol_files {
            let name = vf.file_name().unwrap().to_str().unwrap().to_string();
            if !name.contains(&format!(".viol-{}-", prop)) {
                continue;
            }
            let j = match std::fs::read_to_string(vf).ok().and_then(|t| json::parse(&t).ok()) {
                Some(j) => j,
                None => continue,
            };
            let clause = j.get("clause").and_then(|v| v.as_str()).unwrap_or("").to_string();
            if seen_clauses.contains(&clause) || seen_clauses.len() >= 3 {
                continue;
            }
            let run = j.get("run").and_then(|v| v.as_u64()).unwrap_or(0);
            let dest = replays.join(format!("{}-{}-{}{}.json", prop, seed, run, suffix));
            match confirm_and_minimise(&exe, vf, &dest) {
                Some(c) => {
                    seen_clauses.insert(clause);
                    violations.push(c);
                }
                None => {
                    unreproducible += 1;
                }
            }
        }
    }
    if violations.is_empty() && unreproducible > 0 {
        println!("HARNESS-ERROR: {} violation file(s) did not reproduce in a fresh process (harness nondeterminism)", unreproducible);
        return 2;
    }

    // known findings
    let known = load_known_findings();
    let mut reported = 0u64;
    let mut known_hit: HashSet<String> = HashSet::new();
    let mut lines: Vec<String> = Vec::new();
    for v in &violations {
        if let Some(k) = known.iter().find(|k| k.status == "known" && k.property == v.property && k.clause == v.clause) {
            known_hit.insert(format!("{} {}", k.clause, k.note));
        } else {
            reported += 1;
            lines.push(format!("VIOLATION property={} replay={}", v.property, v.path.display()));
            lines.push(format!("  clause={} minimised={}", v.clause, v.minimised));
        }
    }
    for k in known.iter().filter(|k| k.status == "known" && k.property == prop) {
        println!("KNOWN-FINDING: property={} {} {}", k.property, k.clause, k.note);
    }

    // thorough: determinism re-check
    let mut extra: Vec<(String, J)> = Vec::new();
    if tier == "thorough" {
        let (m, c) = determinism_check(&exe, &prop, seed, 200, &[2, 16], &workdir.join("det"));
        extra.push(("determinism_runs_rechecked".into(), J::u(c)));
        extra.push(("determinism_mismatches".into(), J::u(m)));
        if m != 0 {
            println!("HARNESS-ERROR: determinism re-check found {} mismatches", m);
            return 2;
        }
    }
    if let Ok(p) = std::env::var("VERIF_EXTRA_JSON") {
        if let Ok(t) = std::fs::read_to_string(&p) {
            if let Ok(j) = json::parse(&t) {
                extra.push(("auxiliary".into(), j));
            }
        }
    }
    if !alt.is_empty() {
        extra.push((
            "build_configuration_strata".into(),
            J::Arr(
                alt.iter()
                    .map(|(n, _, b)| {
                        J::obj()
                            .set("build", J::s(n))
                            .set("worlds", J::u(b.stats.get("evaluations")))
                            .set("simulated_steps", J::u(b.stats.get("simulated_steps")))
                            .set("switches", J::u(b.stats.get("sched.switches")))
                            .set("preempt_same_object", J::u(b.stats.get("probes.preempt_same_regex_object")))
                            .set("cancel", J::u(b.stats.get("faults.cancel")))
                            .set("iterator_histories", J::u(b.stats.get("c09.iterator_histories")))
                            .set("wall_s", J::Num((b.wall_s * 10.0).round() / 10.0))
                    })
                    .collect(),
            ),
        ));
    }
    if prop == "C19" {
        if let Ok(t) = std::fs::read_to_string(out_root().join("work").join("autotraits-configs.txt")) {
            extra.push(("send_sync_probe_build_configurations".into(), J::Arr(t.lines().filter(|l| !l.is_empty()).map(|l| J::s(l)).collect())));
        }
    }
    extra.push(("seeds".into(), J::obj().set("base_seed", J::u(seed)).set("run_index_range", J::Arr(vec![J::u(0), J::u(r.stats.get("evaluations"))])).set("note", J::s("world i uses splitmix64(seed ^ golden*(i+1)) as root of three independent streams"))));
    if !notes.is_empty() {
        extra.push(("unclaimed_observations".into(), J::Arr(notes.iter().map(|n| J::s(n)).collect())));
    }
    extra.push(("violations_reported".into(), J::Arr(violations.iter().map(|v| J::obj().set("clause", J::s(&v.clause)).set("replay", J::s(v.path.to_str().unwrap_or(""))).set("minimised", J::Bool(v.minimised))).collect())));

    let (distinct, rule) = if prop == "C09" {
        (
            r.distinct.get(&9).copied().unwrap_or(0),
            "worlds are a pure function of (VERIF_SEED, run index, profile C09): 1-3 client threads, 1-3 regexes from the committed corpus or the grammar generator, 1-6 haystacks, scripts of <=24 ops over iterator handles. A case is one finished iterator history (pattern, flags, executor, input kind, haystack, start, sequence of observed next() results incl. resume marks); it is non-trivial if it has >=2 next() calls and includes an empty match, a poll after None, a resume from the model cursor, or a step taken while a sibling iterator of the same thread was live; distinct = distinct FNV hashes of such histories across all workers.",
        )
    } else {
        (
            r.distinct.get(&19).copied().unwrap_or(0),
            "worlds are a pure function of (VERIF_SEED, run index, profile C19): 1-4 client threads sharing 1-4 compiled Regex objects, scripts of <=24 ops, one scheduling strategy and fault mask per world. A case is (world, schedule trace); it is non-trivial if at least one context switch was taken at a hook site inside a search while another thread was parked mid-search on the same Regex object; distinct = distinct FNV hashes of (world description, recorded schedule) across all workers.",
        )
    };
    let wall = t0.elapsed().as_secs_f64();
    write_evidence(&prop, &tier, seed, &r.stats, distinct, rule, wall, reported, extra);

    println!(
        "worlds={} distinct_nontrivial={} simulated_steps={} switches={} preempt_same_object={} cancel={} fuel={} wall={:.1}s",
        r.stats.get("evaluations"),
        distinct,
        r.stats.get("simulated_steps"),
        r.stats.get("sched.switches"),
        r.stats.get("probes.preempt_same_regex_object"),
        r.stats.get("faults.cancel"),
        r.stats.get("faults.fuel"),
        wall
    );
    for (k, v) in r.stats.c.iter().filter(|(k, v)| k.starts_with("probes.") && **v == 0) {
        println!("WARNING: probe {} stuck at {}", k, v);
    }
    let other = if prop == "C19" { "C09" } else { "C19" };
    if r.stats.get(&format!("violations.{}", other)) > 0 {
        println!("NOTE: the {} oracle also fired in this batch ({} times); run ./check {} {}", other, r.stats.get(&format!("violations.{}", other)), other, tier);
    }
    for l in &lines {
        println!("{}", l);
    }
    if reported > 0 {
        1
    } else if r.stats.get("evaluations") == 0 {
        println!("HARNESS-ERROR: no world was executed");
        2
    } else {
        println!("OK property={} held on everything explored", prop);
        0
    }
}
