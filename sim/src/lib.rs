//! simcore: deterministic simulation with fault injection for regress.
pub mod json;
pub mod rng;
pub mod run;
pub mod sched;
pub mod world;
pub mod gen;
