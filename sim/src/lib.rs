//! simcore: deterministic simulation with fault injection for regress.
pub mod json;
pub mod rng;
pub mod run;
pub mod sched;
pub mod world;
pub mod gen;
pub mod driver;
pub mod shrink;
pub mod stats;
pub mod pristine;

/// Which build configuration of regress this simulator was linked against (see the
/// `cfg-*` features in Cargo.toml); recorded in replay files so that `./check replay`
/// picks the matching binary.
pub fn build_name() -> &'static str {
    match (cfg!(feature = "cfg-utf16"), cfg!(feature = "cfg-index"), cfg!(feature = "cfg-safe")) {
        (false, false, false) => "default",
        (true, false, false) => "utf16",
        (false, true, false) => "index",
        (false, false, true) => "safe",
        (true, true, true) => "all",
        _ => "mixed",
    }
}
