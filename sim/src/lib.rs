//! simcore: deterministic simulation with fault injection for regress.
pub mod json;
pub mod rng;
pub mod run;
pub mod sched;
pub mod world;
pub mod gen;
pub mod driver;
pub mod shrink;
pub mod stats;
pub mod pristine;
