//! Miri tier of C20: std's str consumers slice the haystack with *unchecked*
//! indexing on the (a, b) pairs our Searcher hands them. Under Miri an index that
//! is out of bounds, reversed or off a char boundary is reported instead of being
//! silently read. argv[1] = world seed; each world drives one RegexSearcher through
//! a seeded interleaving of next()/next_back()/provided methods until Done on both
//! ends, checks the tiling online, and runs every std consumer once.
#![feature(pattern)]
use regress::Regex;
use std::str::pattern::{Pattern, ReverseSearcher, SearchStep, Searcher};

fn splitmix(x: &mut u64) -> u64 {
    *x = x.wrapping_add(0x9E37_79B9_7F4A_7C15);
    let mut z = *x;
    z = (z ^ (z >> 30)).wrapping_mul(0xBF58_476D_1CE4_E5B9);
    z = (z ^ (z >> 27)).wrapping_mul(0x94D0_49BB_1331_11EB);
    z ^ (z >> 31)
}

const CORPUS: &[(&str, &str)] = &[
    ("\\d*", ""), ("x*", ""), ("", ""), ("\\b", ""), ("^", "m"), ("$", ""), ("a|", ""), ("(?=.)", ""), ("é*", ""), ("𝒳*", "u"),
    ("\\d+", ""), ("\\s+", ""), ("[ab]", ""), ("a.c", ""), ("\"[^\"]*\"", ""), ("aa", ""), ("..", ""), ("(?<=a)b", ""), ("\\w+", "u"), ("(a)|(b)", ""),
];
const HAYS: &[&str] = &["ab12cd", "", "x", "é", "𝒳é𝒳", "€a€", "aア", "1€", "a \"b\" c \"d\" e \"f\" g", "aaaaaaaaaaaaaaaaaaaaa", "1𝒳1é1é \n𝒳", "ab\ncd\n", "ßaab 12 éé", "жa1א", "\u{7ff}1\u{800}", "\u{d7ff}a\u{e000}\u{ffff}", "\u{10000}1\u{10ffff}\u{80}"];

fn check(ok: bool, what: &str) {
    if !ok {
        println!("C20-MIRI-MISMATCH {}", what);
        std::process::exit(1);
    }
}

fn main() {
    let seed: u64 = std::env::args().nth(1).and_then(|s| s.parse().ok()).unwrap_or(0);
    let mut x = seed.wrapping_mul(0x2545F4914F6CDD1D) ^ 0x1234;
    let (p, f) = CORPUS[(splitmix(&mut x) % CORPUS.len() as u64) as usize];
    let h = HAYS[(splitmix(&mut x) % HAYS.len() as u64) as usize];
    let re = Regex::with_flags(p, f).unwrap();
    let fi: Vec<(usize, usize)> = re.find_iter(h).map(|m| (m.start(), m.end())).collect();
    let len = h.len();

    // seeded interleaving of the two ends, then drain
    let mut s = (&re).into_searcher(h);
    let (mut ff, mut bf) = (0usize, len);
    let (mut fdone, mut bdone) = (false, false);
    let mut fm: Vec<(usize, usize)> = Vec::new();
    let mut steps = 0;
    while !(fdone && bdone) && steps < 8 * len + 40 {
        steps += 1;
        let forward = if fdone { false } else if bdone { true } else { splitmix(&mut x) % 2 == 0 };
        if forward {
            match s.next() {
                SearchStep::Done => fdone = true,
                SearchStep::Match(a, b) | SearchStep::Reject(a, b) => {
                    check(a == ff && a <= b && b <= len && h.is_char_boundary(a) && h.is_char_boundary(b), &format!("forward step ({},{}) at frontier {} /{}/ on {:?}", a, b, ff, p, h));
                    ff = b;
                }
            }
        } else {
            match s.next_back() {
                SearchStep::Done => bdone = true,
                SearchStep::Match(a, b) | SearchStep::Reject(a, b) => {
                    check(b == bf && a <= b && h.is_char_boundary(a) && h.is_char_boundary(b), &format!("backward step ({},{}) at frontier {} /{}/ on {:?}", a, b, bf, p, h));
                    bf = a;
                }
            }
        }
    }
    check(fdone && bdone, "no Done");
    check((ff == len && bf == 0) || ff == bf, &format!("coverage forward 0..{} backward {}..{} /{}/ on {:?}", ff, bf, len, p, h));
    let mut s2 = (&re).into_searcher(h);
    while let Some(m) = s2.next_match() {
        fm.push(m);
    }
    check(fm == fi, &format!("forward matches {:?} vs find_iter {:?} /{}/ on {:?}", fm, fi, p, h));

    // every std consumer once: unchecked slicing happens inside std
    let pieces: Vec<&str> = h.split(&re).collect();
    let mut exp = Vec::new();
    let mut st = 0;
    for (a, b) in &fi {
        exp.push(&h[st..*a]);
        st = *b;
    }
    exp.push(&h[st..]);
    check(pieces == exp, &format!("split {:?} vs {:?}", pieces, exp));
    let _: Vec<&str> = h.rsplit(&re).collect();
    let _: Vec<&str> = h.matches(&re).collect();
    let _: Vec<&str> = h.rmatches(&re).collect();
    let _: Vec<(usize, &str)> = h.match_indices(&re).collect();
    let _: Vec<(usize, &str)> = h.rmatch_indices(&re).collect();
    let _: Vec<&str> = h.split_inclusive(&re).collect();
    let _: Vec<&str> = h.split_terminator(&re).collect();
    let _: Vec<&str> = h.rsplit_terminator(&re).collect();
    let _: Vec<&str> = h.splitn(3, &re).collect();
    let _: Vec<&str> = h.rsplitn(3, &re).collect();
    let _ = h.replace(&re, "<>");
    let _ = h.replacen(&re, "<>", 2);
    let _ = h.find(&re);
    let _ = h.rfind(&re);
    let _ = h.trim_start_matches(&re);
    let _ = h.trim_end_matches(&re);
    let _ = h.strip_prefix(&re);
    let _ = h.strip_suffix(&re);
    let _ = h.starts_with(&re);
    let _ = h.ends_with(&re);
    let _ = h.split_once(&re);
    let _ = h.rsplit_once(&re);
    println!("miri-c20 world {} ok: /{}/{} on {:?}", seed, p, f, h);
}
