#!/usr/bin/env bash
# Run quick checks against a scratch copy of /repo with one patch applied.
#   ./try_patch.sh <patch.diff> <C19|C09|C20>...      (scratch copy and its build output are removed afterwards
#                                                       unless VERIF_KEEP_SCRATCH=1; target dir is reused between calls)
set -u
VERIF="$(cd "$(dirname "${BASH_SOURCE[0]}")" && pwd)"
patch="$(readlink -f "$1")"; shift
SCR="${VERIF_SCRATCH:-/tmp/verif-try}"
rm -rf "$SCR/repo" "$SCR/out"; mkdir -p "$SCR/repo" "$SCR/out"
(cd /repo && git archive HEAD | tar -x -C "$SCR/repo") && cp /repo/Cargo.lock "$SCR/repo/"
(cd /repo && git ls-files -z | xargs -0 -I{} cp --parents {} "$SCR/repo/") 2>/dev/null
(cd "$SCR/repo" && git init -q . && git apply "$patch") || { echo "PATCH-DOES-NOT-APPLY"; exit 2; }
rc_all=0
for c in "$@"; do
  out="$SCR/out/$c"; mkdir -p "$out"
  VERIF_REPO="$SCR/repo" VERIF_TARGET="$SCR/target" VERIF_TARGET_NIGHTLY="$SCR/target-nightly" VERIF_OUT="$out" "$VERIF/check" "$c" "${VERIF_TIER:-quick}" > "$out/log" 2>&1
  rc=$?
  echo "== $c rc=$rc"; grep -E "^(VIOLATION|  clause|KNOWN-FINDING|HARNESS-ERROR|OK|worlds=|shrink:|NOTE)" "$out/log"
  for f in "$out"/replays/*.json; do [ -f "$f" ] && { echo "-- $f"; head -c 1800 "$f"; echo; }; done
  [ $rc -ne 0 ] && rc_all=$rc
done
[ -z "${VERIF_KEEP_SCRATCH:-}" ] && rm -rf "$SCR/repo"
exit $rc_all
