#!/usr/bin/env bash
# Confirm a seeded change independently: suite passes with it, demo fails with it, demo passes without it.
#   confirm_seeded.sh <worktree> <outdir-with-patch.diff-and-demo> [demo test name = seeded_demo]
set -u
WT="$1"; OUT="$2"; DEMO="${3:-seeded_demo}"
cd "$WT" || exit 2
git reset -q && git checkout -q -- . && git clean -qfd -e target -e Cargo.lock
git apply "$OUT/patch.diff" || { echo "patch does not apply"; exit 2; }
echo "## suite with patch"
cargo test --workspace --no-fail-fast --offline 2>&1 | grep -E "^test result|FAILED|panicked" | sort | uniq -c | head -20
cp "$OUT/$DEMO.rs" tests/$DEMO.rs
if [ -n "${DEMO_FLAGS:-}" ]; then echo "## nightly pattern tests with patch"; cargo +nightly test --offline --features pattern --test pattern_tests 2>&1 | grep -E "^test result"; fi
echo "## demo with patch (expect FAIL)"
${DEMO_CARGO:-cargo} test --offline ${DEMO_FLAGS:-} --test $DEMO -- --test-threads=1 2>&1 | grep -E "^test result|^test .*(FAILED|ok)$" | head -10
git reset -q; git checkout -q -- src Cargo.toml 2>/dev/null; git clean -qfd src
echo "## demo without patch (expect ok)"
${DEMO_CARGO:-cargo} test --offline ${DEMO_FLAGS:-} --test $DEMO -- --test-threads=1 2>&1 | grep -E "^test result|^test .*(FAILED|ok)$" | head -10
rm -f tests/$DEMO.rs
