#!/usr/bin/env bash
# Sensitivity self-test: apply each patch in /verif/mutants to a scratch copy of
# /repo (outside /repo and /verif, removed afterwards) and run the quick checks
# against it. c19-*/c09-*/c20-* patches must be reported under that property;
# benign-* patches must stay silent under every check.
#   ./selftest_mutants.sh [pattern]      e.g. ./selftest_mutants.sh 'c19-*'
set -u
VERIF="$(cd "$(dirname "${BASH_SOURCE[0]}")" && pwd)"
PAT="${1:-*}"
SCR="${VERIF_SCRATCH:-/tmp/verif-mutants}"
rm -rf "$SCR"; mkdir -p "$SCR"
trap 'rm -rf "$SCR"' EXIT
export VERIF_WORLDS="${VERIF_WORLDS:-80000}"
fail=0
printf '%-40s %-8s %-10s %s\n' patch check expected result
for patch in "$VERIF"/mutants/$PAT.diff; do
  name="$(basename "$patch" .diff)"
  rm -rf "$SCR/repo"; mkdir -p "$SCR/repo"
  (cd /repo && git archive HEAD | tar -x -C "$SCR/repo") && cp /repo/Cargo.lock "$SCR/repo/"
  # the working tree of /repo may carry uncommitted fixes: take tracked files as they are on disk
  (cd /repo && git ls-files -z | xargs -0 -I{} cp --parents {} "$SCR/repo/") 2>/dev/null
  if ! (cd "$SCR/repo" && git init -q . && git apply "$patch"); then
    printf '%-40s %-8s %-10s %s\n' "$name" - - "PATCH-DOES-NOT-APPLY"; fail=1; continue
  fi
  case "$name" in
    c19-*) checks="C19"; want=1 ;;
    c09-*) checks="C09"; want=1 ;;
    c20-*) checks="C20"; want=1 ;;
    benign-c20-*) checks="C20"; want=0 ;;
    benign-*) checks="C19 C09"; want=0 ;;
    *) checks="C19 C09"; want=1 ;;
  esac
  for c in $checks; do
    out="$SCR/out-$name-$c"; mkdir -p "$out"
    # mutants named *-miri-* are only visible to the Miri stratum; for all others the
    # stratum may be switched off by the caller (VERIF_NO_MIRI=1) to save time
    nomiri="${VERIF_NO_MIRI:-}"; case "$name" in *-miri-*) nomiri="" ;; esac
    # defects keyed on addresses depend on the heap layout, which depends on path lengths: give
    # them the full quick budget instead of the reduced world count of this self-test
    worlds="$VERIF_WORLDS"; case "$name" in *-by-ptr|*-by-fingerprint) worlds=240000 ;; esac
    VERIF_WORLDS="$worlds" VERIF_NO_MIRI="$nomiri" VERIF_REPO="$SCR/repo" VERIF_TARGET="$SCR/target" VERIF_TARGET_NIGHTLY="$SCR/target-nightly" VERIF_OUT="$out" "$VERIF/check" "$c" quick > "$out/log" 2>&1
    rc=$?
    got="$(grep -c "^VIOLATION property=$c " "$out/log")"
    if [ "$want" = 1 ]; then
      if [ $rc -eq 1 ] && [ "$got" -ge 1 ]; then res="DETECTED ($(grep -m1 'clause=' "$out/log" | sed 's/^ *//'))"; else res="MISSED rc=$rc"; fail=1; fi
    else
      if [ $rc -eq 0 ]; then res="SILENT (ok)"; else res="FALSE-ALARM rc=$rc"; fail=1; fi
    fi
    printf '%-40s %-8s %-10s %s\n' "$name" "$c" "$([ $want = 1 ] && echo violation || echo silent)" "$res"
    if [ -n "${VERIF_KEEP_LOGS:-}" ]; then mkdir -p "$VERIF/work/mutant-logs"; cp "$out/log" "$VERIF/work/mutant-logs/$name-$c.log"; cp "$out"/replays/*.json "$VERIF/work/mutant-logs/" 2>/dev/null; fi
  done
done
[ $fail -eq 0 ] && echo "mutant selftest: OK" || echo "mutant selftest: FAILED"
exit $fail
