#!/usr/bin/env bash
# Regression over the independently seeded changes in /verif/seeded/<id>/: each patch is
# applied to a scratch copy of /repo and the quick check of its property must report it.
#   ./selftest_seeded.sh [glob]        e.g. ./selftest_seeded.sh 'C19-*'
set -u
VERIF="$(cd "$(dirname "${BASH_SOURCE[0]}")" && pwd)"
PAT="${1:-*}"
export VERIF_SCRATCH="${VERIF_SCRATCH:-/tmp/verif-seeded}"
fail=0
printf '%-8s %-6s %s\n' id check result
for d in "$VERIF"/seeded/$PAT/; do
  id="$(basename "$d")"
  prop="$(python3 -c "import json,sys; print(json.load(open(sys.argv[1]))['property'])" "$d/meta.json")"
  # only C19-E needs the Miri stratum; skip it elsewhere to save time
  nomiri=1; tier=quick
  [ "$id" = "C19-E" ] && nomiri=""
  [ "$id" = "C19-P" ] && nomiri=""
  [ "$id" = "C19-U" ] && nomiri=""
  [ "$id" = "C19-X" ] && nomiri=""
  [ "$id" = "C19-Z" ] && nomiri=""
  # C19-I: a narrow window (the 256th match while two threads report); first hit around world
  # 400 000 with the current generator - thorough-tier territory, so give it 150 s here
  if [ "$id" = "C19-I" ]; then export VERIF_BUDGET_S=150 VERIF_WORLDS=2000000; else unset VERIF_BUDGET_S; [ "${VERIF_WORLDS:-}" = "2000000" ] && unset VERIF_WORLDS; fi
  # C19-U: the agent volunteered a hook site inside the race window; the regression uses the
  # variant without it
  pf="$d/patch.diff"; [ -f "$d/patch-nohook.diff" ] && pf="$d/patch-nohook.diff"
  # C19-N is only visible to the large-Unicode-class Miri scenario of the thorough tier
  if [ "$id" = "C19-N" ]; then nomiri=""; tier=thorough; export VERIF_NO_ALT=1; else unset VERIF_NO_ALT; fi
  out="$(VERIF_TIER="$tier" VERIF_MIRI_WORLDS="$([ "$id" = "C19-N" ] && echo 0 || echo "${VERIF_MIRI_WORLDS:-2}")" VERIF_NO_MIRI="$nomiri" VERIF_WORLDS="${VERIF_WORLDS:-240000}" "$VERIF/try_patch.sh" "$pf" "$prop" 2>&1)"
  if echo "$out" | grep -q "^VIOLATION property=$prop "; then
    res="DETECTED $(echo "$out" | grep -m1 'clause=' | sed 's/^ *//' | cut -c1-90)"
    [ -z "$(echo "$out" | grep -m1 'clause=')" ] && res="DETECTED (Miri stratum)"
  elif [ "$(python3 -c "import json,sys; print(json.load(open(sys.argv[1])).get('status',''))" "$d/meta.json")" = "missed-documented" ]; then
    res="MISSED (documented limit, see meta.json)"
  else
    res="MISSED"; fail=1
  fi
  printf '%-8s %-6s %s\n' "$id" "$prop" "$res"
done
rm -rf "$VERIF_SCRATCH"
[ $fail -eq 0 ] && echo "seeded regression: OK" || echo "seeded regression: FAILED"
exit $fail
